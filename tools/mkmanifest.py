#!/usr/bin/env python3
"""Regenerates /verif/MANIFEST.json from the table below (single source of truth)."""
import json, os
V = os.path.dirname(os.path.dirname(os.path.abspath(__file__)))

def findings_note(pid):
    """recorded / repaired findings of this property, from known_findings.json (single source)."""
    kf = json.load(open(os.path.join(V, "known_findings.json")))
    rec = [f["key"].split("-")[0] for f in kf["findings"] if f["property"] == pid]
    nfix = sum(1 for f in kf["fixed"] if f"property={pid} " in f)
    out = "; recorded findings: " + (", ".join(rec) if rec else "none")
    if nfix:
        out += f"; {nfix} genuine defect(s) found by this check were repaired in /repo (known_findings.json, 'fixed')"
    return out


CHECKS = {
 "C07": dict(
    technique="runtime differential: expression trees evaluated with Python's operators vs parse_expression of 7 renderings (independent reader + ast validate each rendering); audit hook + profile hook during parsing of hostile strings",
    text="Every tree with <= 3 leaves over {2, 3, 0.5, m, s, km, percent} and + - * / // ** unary minus in float/Decimal/Fraction registries (complete; all four-leaf trees and all operator "
         "skeletons up to 6 leaves in thorough), random trees of 5-12 leaves, each rendered as spaced / dense / parenthesised with ^ / juxtaposition / superscripts / glued groups / mixed "
         "whitespace; the parsed value, units, magnitude type or error class must equal the tree's. Word forms, literal types, uncertainty notations, ureg(s) and Quantity(s) entry points; "
         "damaged strings (dropped parenthesis or operand, dangling operator) must raise; 24 k / 400 k hostile strings parsed under sys.addaudithook + sys.setprofile (eval, exec, compile, "
         "import, open, os.*, getattr from parser frames) must produce only exceptions or quantities.",
    note="renderings that the independent reader cannot read back make the run inconclusive, never a violation; CPython's own tokenizer error path opening '<string>' is counted only",
    ref="4/C07"),
 "C03": dict(
    technique="runtime oracles: reference-model evaluation of every operator node (exact in the Fraction registry) + re-expression metamorphic relation; operand fingerprints; icontract invariants on the live UnitsContainer; line observer on 23 anchored methods",
    text="Random expression trees (depth <= 3 quick / 4 thorough) and a systematic operator x left-kind x right-kind x form matrix over + - * / // % ** neg abs == != < <= > >= divmod, each "
         "binary node as plain, reflected (also the reflected dunder called directly) and in-place form, leaves expressed in 4 alternative unit assignments (other units of the class, prefixed, "
         "compounds, percent/ppm/radian decorations), magnitudes int/Fraction/Decimal/float/ndarray, default and auto_reduce registries, generated registries: every node's real result is "
         "compared with (value in root units, dimension vector) computed by the independent model and with the same node under the other unit assignments; error classes must agree; only "
         "in-place targets may change (fingerprints); 52 M container-invariant evaluations per quick run. Later addition: shards with the spectroscopy context active (operators must not convert through it).",
    note="offset/log units out of scope (C06); negatively scaled units excluded; float runs carry a propagated error bound",
    ref="4/C03"),
 "C06": dict(
    technique="runtime oracle: affine/log unit model + 51-rule table transcribed from docs and test tables vs real conversions and arithmetic in 4 registry modes; in-place vs functional twins; line observer on the anchored functions",
    text="Every ordered pair among kelvin, degC, degF, degRe, degR and their deltas, generated offset units (rational scale/offset, several reference units), all 49 log-unit pairs, under "
         "+ - * / ** neg abs == < > with numbers, numpy scalars, ndarrays and compounds, in all four {autoconvert_offset_to_baseunit} x {default_as_delta} modes: unit container and value "
         "must equal the cited rule (exact in the Fraction registry for affine maps), ambiguous cells must raise the cited error class, to/convert/m_as/ito must agree and be mutually "
         "inverse, in-place results equal functional twins, parse_units delta reading; a sys.monitoring observer shows all 9 arms of _add_sub/_iadd_sub were executed.",
    note="cells no document or test row covers are recorded as 'unspecified, observed X' and never alarmed on",
    ref="4/C06"),
 "C15": dict(
    technique="runtime oracle: reference-model root value and dimension vector before/after every rewriting helper; structural clauses for to_reduced_units and to_compact; ito twins",
    text="Random quantities over all 385 canonical multiplicative units (1-4 units, exponents -3..3, 61 decades, int/Fraction/float/Decimal/ufloat) through to_root_units, to_base_units "
         "(7 systems), to_reduced_units, to_compact, to_preferred and their ito_ forms, and through arithmetic under auto_reduce_dimensions / autoconvert_to_preferred: value and dimension "
         "preserved (exact == in the Fraction registry on untainted units), ito object equals the functional result, no two mergeable units left, to_compact changes one decimal prefix on one "
         "unit and brings a first-power leading unit into [1,1000), special inputs unchanged; every unit alone at decade boundaries. Later addition: exactness clause in the Fraction registry (exact magnitude, integer exponents, exactly defined units must come back exact).",
    note="float-range excursions of tainted (Planck/atomic) factors are counted, not judged",
    ref="4/C15"),
 "C17": dict(
    technique="runtime oracle: argument recorder inside generated functions + reference-model ratios and dimension vectors vs ureg.wraps / ureg.check",
    text="Generated functions (1-5 parameters; positional-only, keyword-only, defaults) record exactly what they receive; wraps specs from {unit string, Unit, None, =A, =A*B, =A**2, =A/B ...} "
         "and scalar/tuple return specs, strict on/off; calls mix positional, keyword and omitted-default passing with compatible, incompatible, bare and arbitrary arguments. Expected "
         "magnitudes are value x model ratio over exact Fractions (never pint's convert), expected DimensionalityError from model dimension vectors; ureg.check raises iff a position "
         "mismatches; parameter-count mismatches must be rejected at decoration time; offset units with declared-unit specs. Later additions: ndarray arguments with every wrapped function called twice on the same argument objects (argument snapshots); parameters declared with an empty units container ('' / 'dimensionless' / ureg.dimensionless).",
    note="a bare number for an '=A' spec is treated as dimensionless by pint's own tests: strict/non-strict clauses decided on declared-unit specs only",
    ref="4/C17"),
 "C18": dict(
    technique="runtime oracles: structural fingerprints across copy/pickle/tuple round trips (fresh subprocess for unpickling), cross-registry operator matrix, fresh-twin comparison of deep-copied and lazy registries",
    text="Every canonical unit and random compounds (prefixed, 19 magnitude kinds) through pickle 0-5, copy, deepcopy, tuple form in three numeric registries; unpickling in a fresh "
         "subprocess whose application registry never saw the prefixed units (attachment and pre-registration observed); all 15 exception classes; 21 operators x 7 operand kinds x 4 "
         "registry pairs must raise ValueError; 26 kinds of evolution applied to one side of a deep-copied pair, each side compared with a fresh twin that received that side's history; "
         "the lazy default registry and module-level classes probed against an explicit registry (~1500 queries).",
    note="cross-registry == is observed, not alarmed (statement speaks of arithmetic and ordering)",
    ref="4/C18"),
 "C09": dict(
    technique="runtime oracles: independent per-format readers (D, C, P, H, L, Lx) recover names/exponents/positions from every rendering; Python's own format() for magnitudes; parse-back round trip; fingerprints",
    text="Every canonical unit x exponents {1,-1,2,-2} x 16 specs as Unit and as Quantity (79 680 cells, complete in both tiers) plus random compounds (1-5 terms, integer/fractional "
         "exponents, prefixed units, same-symbol units), every magnitude kind and 12 magnitude specs, the # modifier, 19 default_format values x 4 sort functions x "
         "separate_format_defaults, in float/Decimal/Fraction registries: each rendering is read back by an independent reader and compared with the object's container, "
         "magnitude text with Python's format(), plain-text renderings re-parsed whenever exponents are rendered exactly; nothing may raise or change the object.",
    note="babel/locale out of scope; the 'raw' format (not listed in the statement) is observed only",
    ref="4/C09"),
 "C16": dict(
    technique="runtime oracles: own unit-algebra table per NumPy function + re-expression metamorphic relation + numpy on root magnitudes; input fingerprints; error and offset clauses",
    text="All 217 reachable names of HANDLED_FUNCTIONS / HANDLED_UFUNCS / wrapped ndarray methods (559 call variants: axis, keepdims, where, initial, ddof, out, atol, prepend/append ...) are "
         "called on random arrays of ranks 0-3 in three registry configurations; each abstract call is realised twice in different compatible units and both results must be physically "
         "equal, equal NumPy applied to root magnitudes, and carry the unit implied by an independently written table; inputs are fingerprinted; one argument moved to another dimension "
         "or made bare must raise DimensionalityError; offset units must be refused or agree with the kelvin run. Later addition: trapezoid with unit-less, non-uniform sample points.",
    note="own unit-factor table verified against the registry at shard start; integer/complex dtypes, masked/dask arrays out of reach",
    ref="4/C16"),
 "C19": dict(
    technique="runtime oracles: reference-model slopes and own first-order propagation vs real Measurement conversions/arithmetic; independent readers of the +/- notations and of every measurement format",
    text="12 constructor forms over 40 decades; every ordered compatible pair of canonical multiplicative units (7775, complete) plus temperature and log units through to()/ito(): nominal "
         "equals the plain conversion and the model ratio, sigma scales by |slope|, relative error invariant; 90 (operator, operand-kind) combinations and random expression trees with "
         "shared leaves against an own forward-mode propagation; offset rule table in two registry modes; generated +/- and concise notations (signs, exponents, spacing, unicode) "
         "against an independent reader; 644 format specs rendered and read back by an independent reader, D/C outputs re-parsed by pint. Later additions: three-digit decimal exponents in the format workload; exponent markup must end the number.",
    note="float registry only (the uncertainties package is float-only)",
    ref="4/C19"),
 "C13": dict(
    technique="runtime shadow-twin monitor: aged registry vs fresh twin at the same declarative state after every state change; counting cache proxies",
    text="Histories over the default registry interleave a pool of 46 read-only questions (convert, parse, base/root units, dimensionality, compatible units, format, to_compact, "
         "to_base_units) with state changes (define, enable/disable rule and redefining contexts, default_system, creating and using a second registry that defines the same names "
         "differently). Each answer is compared with a fresh twin brought to the same declarative state that is asked each question once. State-change prefixes are enumerated "
         "exhaustively up to length 2 (quick) / 3 (thorough) with the whole pool re-asked after every change; random histories up to length 60. Counting dict proxies in the "
         "registry's memo layers show the compared answers were cache hits. Later additions: redefinition histories (an existing unit defined again after its dependants were memoised), activations with keyword overrides, context-sensitive questions in every context-switching history.",
    note="define-twin (same define() calls), so the loading-path finding D11 is not re-reported",
    ref="4/C13"),
 "C12": dict(
    technique="runtime reference stack machine + fresh-twin probe battery over exhaustively enumerated operation sequences with injected failing activations; context fingerprints",
    text="All operation sequences up to length 3 (quick, length 4 sampled) / 5 (thorough) over 13 operations (enable with/without parameters, enable of two invalid contexts, a two-name "
         "activation that fails part-way, disable(1), disable(all), with-enter, with-exit, exception inside a with-block, define) are executed on a real registry while a list models the stack; "
         "afterwards a 27-answer probe battery (conversions only valid inside each context, redefined and dependent units, root/base units, compatible sets, stack depth) must equal that of a "
         "fresh twin with exactly the model stack enabled, and after leaving everything the pre-entry answers; Context objects are fingerprinted, also when shared by two registries. Operations added later: the decorator form ureg.with_context (returning / raising call; complete enumeration up to length 3 / 4); the battery also asks ureg.get_base_units under a default system and fingerprints every plain registry setting (on_redefinition policy ...).",
    category="fault_enumeration",
    note="small dedicated registry (3 dimensions, 5 contexts); the twin is trusted for values (C11)",
    ref="4/C12"),
 "C11": dict(
    technique="runtime oracle: independent all-shortest-chains evaluator over the declared rules vs real conversions under context stacks; replay under several hash seeds",
    text="Bundled contexts: every ordered pair of rule endpoints with random units of those dimensions, parameters and every activation form is converted by the real registry "
         "and compared (exact in the Fraction registry) with the value of some shortest rule chain computed by an independent reader/evaluator of the @context blocks. Generated "
         "registries with 2-4 generated contexts (monomial equations, parameters, colliding rules, parallel chains, redefinitions) and stacks of 1-4 contexts through six activation "
         "forms; the same case streams are replayed under 4 PYTHONHASHSEEDs because tie-breaking among equal-length chains follows set order. Later additions: rule endpoints spelled with derived dimension names; every second generated registry gets the same contexts built in code (Context + add_transformation + redefine + add_context).",
    note="any shortest chain accepted; with 3+ nested levels every enclosing context is accepted as parameter donor (pint takes the oldest; observed, not alarmed)",
    ref="4/C11"),
 "C10": dict(
    technique="runtime differential: independent reader vs loaded bundled registry; truth-by-construction + observational equivalence of loading paths on generated files; ill-formed corpus must raise",
    text="Every unit, spelling, symbol, prefix, dimension, converter parameter, group, system, context and default of the bundled files is compared with what an independent "
         "reader derives (3 numeric types, literal types observed). Generated files (units, prefixes, derived dimensions, offset units, a group, a system, a context) are loaded "
         "through line list, shuffled lines, shuffled file, define() statement by statement, cold and warm disk cache in float/Decimal/Fraction and 4 layouts; a probe battery "
         "(names, symbols, dimensions, exact factors, offset conversions, compatible sets, members, system base units, context conversions) is compared with construction truth and across paths. "
         "33 ill-formed inputs x 2 paths x 3 types must raise at load or first use. Later additions: cache-edit workload (imported file edited between two loads with the same cache folder); three groups and a system per generated file with five comma layouts in `using`, members compared with the truth by construction.",
    note="only unit/prefix lines are permuted; any exception class counts as 'raises'",
    ref="4/C10"),
 "C14": dict(
    technique="runtime oracle: reference-model closure/members/allowed-base-set/exact factors vs real systems and groups; reference tracker over edit histories; fresh-twin comparison after default_system changes",
    text="Every canonical unit x every declared system (and none) is sent through get_base_units(system=) and to_base_units under that default system; the result must use only "
         "the system's declared base units plus unreplaced root units, keep the model dimension and the exact model value (Fraction registry; 1e-9 for tainted systems) and be idempotent; "
         "group/system members and every restricted compatible-unit query are compared with the model closure; ureg.sys.S.name variants; random histories of default_system changes "
         "(all probes re-asked after each change, compared with a fresh twin) and group edits (tracker); generated group graphs and systems with 'new' and 'new:old' rules incl. multi-root new units. Later additions: read patterns with explicit-system queries; plural spellings through ureg.sys.<system>.",
    note="generated systems only use consistent substitutions (distinct new units, other roots not replaced); g.add_groups(g) self-use is not generated",
    ref="4/C14"),
 "C08": dict(
    technique="runtime oracle: reading sets enumerated by an independent name model vs the real resolution API on the prefix x unit x plural cross product, fresh vs aged registries, hash-seed digest comparison",
    text="Every string p+u+s (72 prefix spellings + none, ~917 unit spellings, optional s; complete in thorough, stratified with all ambiguous and exact strings in quick) is "
         "resolved by the real get_name/get_symbol/parse_units/getattr/in and converted numerically; the answer must be the exact spelling's unit, else one of the model's readings "
         "(the prefix factor applied exactly once), else UndefinedUnitError; the same strings are asked of a registry aged by earlier lookups; choices for ambiguous strings are "
         "digested per shard and compared across PYTHONHASHSEEDs; double-prefix strings, case-insensitive variants, random non-units, delta readings, and generated registries over a "
         "2-letter alphabet where all strings up to length 6 are asked of a fresh registry each. Later additions: lookups under and after a context that redefines units; two cross parts repeated under another PYTHONHASHSEED so that finalize() compares the ambiguous choices.",
    note="trusts the name model (prefix/unit spelling tables read independently from the definition files)",
    ref="4/C08"),
 "C05": dict(
    technique="runtime oracle: reference-model root values vs observed == != < <= > >= hash on all pairs of pools; relation laws checked on the observed relation",
    text="Pools of quantities constructed to contain many physically equal members (every dimension class, a temperature pool built by inverse affine maps "
         "with offset/absolute/delta units, dimensionless units with distinct root units, products differing by dimensionless roots) are compared pairwise "
         "by the real operators in the Fraction registry; each outcome is compared with exact root-unit values of an independent model; reflexivity, "
         "symmetry, transitivity (triples) and trichotomy are checked on the observed relation; cross-dimension, bare-number, NaN and float-away-from-ties clauses.",
    note="pools are sampled per class in quick (all unit pairs in thorough); tainted units excluded",
    ref="4/C05"),
 "C04": dict(
    technique="runtime law checker over exhaustive small containers + icontract class invariants on the live UnitsContainer + operand fingerprints",
    text="All 125 exponent containers over a 3-name alphabet, all 15625 ordered pairs and (thorough) all 1.95M triples are pushed through the real "
         "* / ** eq hash of UnitsContainer, ParserHelper (3 numeric types), Unit, quantity units and dimensionalities and compared with exponent-dict "
         "arithmetic; icontract invariants (no zero exponent, str keys, fresh cached hash) run at every method boundary of the live class during the "
         "whole run; operands are fingerprinted before/after; pi-theorem output is checked to be a basis of the null space by own exact elimination.",
    note="finite alphabet and exponent range; random containers over the default registry are sampled; float exponents restricted to dyadic rationals",
    ref="4/C04"),
 "C02": dict(
    technique="runtime oracle: exact Fraction ratios from an independent reference model vs real convert in Fraction/Decimal/float registries; law monitors; cache audit",
    text="Every ordered same-dimension pair of canonical multiplicative units (about 8000) is converted in the Fraction registry and compared with == "
         "(and result type) against ratios computed by an independent reader; the same pairs in Decimal (1e-22) and float (1e-12, max ulp reported); "
         "identity/inverse/path laws, prefix-spelling x unit-spelling products, compound units, generated files with factors known by construction; "
         "every root_units and conversion_factor cache entry left behind is audited key and value. Later additions: primed-memo conversions; ndarray magnitudes of float and integer dtype through every conversion entry point, in place and not.",
    note="trusts harness/refmodel.py (cross-validated in-run against truth-by-construction files); tainted (fractional-power) units at 1e-9",
    ref="4/C02"),
 "C01": dict(
    technique="runtime oracle: independent reference-model dimension vectors vs observed outcome of convert and 6 predicates; cache audit",
    text="All ordered pairs of the ~390 canonical multiplicative units are converted by the real registry and the outcome class "
         "(number / DimensionalityError / other) compared with dimension vectors computed by an independent reader of the definition "
         "files; predicates, compatible-unit listings, spelling variants, random compound units with symmetry/closure laws, "
         "generated registries with truth by construction, 5 registry configurations (case-insensitive under 4 hash seeds); every "
         "entry left in the dimensionality cache is audited. The unit-pair space is enumerated completely; compounds are sampled. Later additions: dimension expressions over derived dimension names through get_dimensionality / Quantity.check / ureg.check; adjacent-exponent twins; auto-reduce closure.",
    note="trusts harness/refmodel.py (validated against generated files whose truth is known by construction); rational non-dyadic exponents only in the Fraction registry",
    ref="4/C01"),
 "C20": dict(
    technique="runtime oracle: curated standards table vs real conversions (exact in Fraction registry)",
    text="Every row of an independently curated table (~250 standard values, 32 prefixes, temperature fixed points, symbols) "
         "is converted by the real registry in the Fraction, float and Decimal configurations and compared exactly / to stated "
         "tolerance; the table is finite and enumerated completely, so for the listed standards this is exhaustive observation. Later additions: every row also through to_base_units() twice; every SI prefix on every exactly defined row (16 k conversions), then every standard symbol resolved again.",
    note="trusts the hand-curated table (sources cited per row); units absent from the table are not covered",
    ref="4/C20"),
}
PENDING = {}   # filled below for everything not in CHECKS

def main():
    props = [json.loads(l) for l in open(os.path.join(V, "properties.jsonl"))]
    checks, na = [], []
    for p in props:
        pid = p["id"]
        c = CHECKS.get(pid)
        if not c:
            na.append({"property_id": pid, "reason": "check not built yet at this commit (monitor planned in DESIGN.md section 4); not claimed"})
            continue
        checks.append({
            "property_id": pid,
            "quick_cmd": f"./check {pid} --tier quick",
            "thorough_cmd": f"./check {pid} --tier thorough",
            "evidence_file": f"evidence/{pid}.json",
            "replay_cmd_template": f"./check {pid} --replay {{path}}",
            "engine": "harness",
            "level_claimed": {"category": c.get("category", "exploration"), "text": c["text"], "design_ref": c["ref"]},
            "level_note": c["note"] + findings_note(pid),
            "technique": c["technique"],
        })
    man = {
        "version": 1,
        "setup_cmd": "/venv/bin/python -m harness.setup",
        "hooks": {
            "guard": "PINT_VERIF",
            "enable": "no source hooks: monitors attach from outside (icontract on live classes, sys.monitoring, audit hooks, cache proxies); the harness sets PINT_VERIF=1 in every shard",
            "baseline_off_cmd": "cd /repo && env -u PINT_VERIF /venv/bin/python -m pytest -ra -q -p no:cacheprovider --timeout=900 --continue-on-collection-errors",
            "source_commits": [],
            "add_only": True,
        },
        "engines": [{"name": "harness", "path": "harness/", "serves_properties": [c["property_id"] for c in checks],
                     "kind_free_text": "runtime monitoring: sharded workloads in fresh interpreters (PYTHONHASHSEED swept) with reference-model oracles, metamorphic relations, class invariants, audit hooks and fresh-twin registries observing the real pint code"}],
        "checks": checks,
        "not_applicable": na,
        "notes": "Exit codes: 0 held on everything observed; 1 VIOLATION; 2 INCONCLUSIVE (monitor not reached / shard died). known_findings.json lists recorded findings and fixed defects.",
    }
    json.dump(man, open(os.path.join(V, "MANIFEST.json"), "w"), indent=1)
    print(len(checks), "checks,", len(na), "not claimed")

if __name__ == "__main__":
    main()
