#!/bin/bash
# tools/all_seeds.sh [seed-dir ...]  -- every stored change against its property's quick check, on scratch
# copies of /repo's working tree; prints one line per change: caught / MISSED / does-not-apply
cd /verif
dirs="$*"; [ -z "$dirs" ] && dirs=$(ls -d seeded/C*-* | sort)
for d in $dirs; do
  id=$(basename $d); pid=${id%-*}
  w=$(mktemp -d /tmp/seedrepo.XXXXXX)
  rsync -a --exclude .git --exclude '__pycache__' /repo/ "$w/"
  if ( cd $w && git apply /verif/$d/patch.diff 2>/dev/null ); then
    extra=$(python3 -c "
import json,re
m=json.load(open('/verif/$d/meta.json'))
t=m.get('detected_by','')
# other checks named at the start of detected_by as the catching ones
print(' '.join(sorted(set(re.findall(r'\bC\d\d\b', t[:400])) - {'$pid'})))")
    res="MISSED"
    for c in $pid $extra; do
      n=$(PINT_REPO="$w" VERIF_NO_EVIDENCE=1 ./check $c 2>&1 | grep -c "^VIOLATION")
      if [ "$n" -gt 0 ]; then res="caught by $c ($n classes)"; break; fi
    done
    echo "$id: $res"
  else
    echo "$id: patch does not apply to the current tree"
  fi
  rm -rf "$w"
done
