#!/bin/sh
# tools/try_seed_copy.sh <seed-dir with patch.diff> <PID> [tier]
# same as try_seed.sh but on a scratch copy of /repo's working tree (PINT_REPO), so that
# background runs reading /repo are not disturbed; the copy is removed afterwards
d=$(realpath "$1"); pid=$2; tier=${3:-quick}
w=$(mktemp -d /tmp/seedrepo.XXXXXX)
rsync -a --exclude .git --exclude '__pycache__' /repo/ "$w/" || exit 2
( cd "$w" && git apply "$d/patch.diff" ) || { echo "patch does not apply"; rm -rf "$w"; exit 2; }
cd /verif && PINT_REPO="$w" VERIF_NO_EVIDENCE=1 ./check $pid --tier $tier 2>&1 | grep "^VIOLATION\|^  fields\|^$pid\|^INCONC" | cut -c1-260 | head -12
rm -rf "$w"
