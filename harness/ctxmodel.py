"""Independent model of context conversions (C11): rule graph over dimension vectors, ALL
shortest chains (own BFS), rule equations evaluated by the reference model's own parser over
exact root-unit quantities, parameter resolution, redefinition overlays, stack semantics."""
from __future__ import annotations

import copy
from fractions import Fraction as F

from harness import refmodel as R


LAST = {"steps": 0, "nchains": 0}   # observation of the last convert_candidates call


class Inexact(Exception):
    pass


def dimkey(d: dict):
    return tuple(sorted((k, F(v)) for k, v in d.items() if v != 0))


class MQ:
    """value in root units + root-unit exponents"""
    __slots__ = ("v", "u")

    def __init__(self, v, u):
        self.v, self.u = v, {k: e for k, e in u.items() if e != 0}


def eval_eq(ast, env, m: R.Model) -> MQ:
    k = ast[0]
    if k == "num":
        return MQ(F(ast[1]), {})
    if k == "name":
        n = ast[1]
        if n in env:
            x = env[n]
            return x if isinstance(x, MQ) else MQ(F(x), {})
        f, ru, _ = m.root_of_spelling(n)
        return MQ(f.v if f.exact else f.f(), ru)
    if k == "neg":
        x = eval_eq(ast[1], env, m)
        return MQ(-x.v, x.u)
    op = ast[1]
    a, b = eval_eq(ast[2], env, m), eval_eq(ast[3], env, m)
    if op == "*":
        return MQ(a.v * b.v, R.mmul(a.u, b.u))
    if op == "/":
        return MQ(a.v / b.v, R.mmul(a.u, b.u, -1))
    if op == "**":
        if b.u:
            raise ValueError("unit exponent")
        e = F(b.v)
        if e.denominator != 1:
            return MQ(float(a.v) ** float(e), R.mscale(a.u, e))   # inexact from here on
        return MQ(a.v ** int(e), R.mscale(a.u, e))
    if op in "+-":
        if a.u != b.u:
            raise ValueError("adding different units")
        return MQ(a.v + b.v if op == "+" else a.v - b.v, a.u)
    raise ValueError(op)


class ActiveCtx:
    def __init__(self, name, params):
        self.name, self.params = name, params


def overlay_model(m: R.Model, active_names_oldest_first) -> R.Model:
    """Model with the redefinitions of the active contexts applied (most recent wins)."""
    redefs = []
    for n in active_names_oldest_first:
        redefs += m.contexts[n]["redefs"]
    if not redefs:
        return m
    mm = copy.copy(m)
    mm.units = dict(m.units)
    mm._memo = {}
    for line in redefs:
        parts = [p.strip() for p in line.split("=")]
        name = parts[0]
        pc, c = m.resolve(name)
        sc, ref = R.evaluate(parts[1])
        u = dict(mm.units[c])
        u["scale"], u["ref"] = sc, ref
        mm.units[c] = u
    return mm


def all_shortest_chains(edges: dict, src, dst):
    """edges: {node: set(nodes)}.  -> list of node lists (all shortest), [] if unreachable."""
    if src == dst:
        return [[src]]
    level = {src: [[src]]}
    seen = {src}
    while level:
        nxt = {}
        for node, paths in level.items():
            for nb in edges.get(node, ()):
                if nb in seen:
                    continue
                nxt.setdefault(nb, [])
                for p in paths:
                    nxt[nb].append(p + [nb])
        if dst in nxt:
            return nxt[dst]
        seen |= set(nxt)
        level = nxt
    return []


def convert_candidates(m: R.Model, stack, x: F, src_units: dict, dst_units: dict, call_kwargs_note=None):
    """stack: list of ActiveCtx, OLDEST first (params already resolved).
    -> set of acceptable magnitudes in dst units, or 'dimerr'.
    Raises Inexact when a tainted constant is involved."""
    names = [a.name for a in stack]
    mm = overlay_model(m, names)
    fs, rs, ds = mm.expand(src_units)
    fd, rd, dd = mm.expand(dst_units)
    fsv = fs.v if fs.exact else fs.f()
    fdv = fd.v if fd.exact else fd.f()
    sk, dk = dimkey(ds), dimkey(dd)
    # rule table: most recent context wins per edge
    rules = {}
    for a in stack:   # oldest first, later overwrite
        for r in m.contexts[a.name]["relations"]:
            s_, d_ = dimkey(mm.dimvec(r["src"])), dimkey(mm.dimvec(r["dst"]))
            rules[(s_, d_)] = (r["eq"], a)
            if r["bidir"]:
                rules[(d_, s_)] = (r["eq"], a)
    if sk == dk:
        return {x * fsv / fdv}
    edges = {}
    for (s_, d_) in rules:
        edges.setdefault(s_, set()).add(d_)
    chains = all_shortest_chains(edges, sk, dk)
    LAST["steps"] = len(chains[0]) - 1 if chains else 0
    LAST["nchains"] = len(chains)
    if not chains:
        return "dimerr"
    out = set()
    for chain in chains:
        q = MQ(x * fsv, rs)
        ok = True
        for a_, b_ in zip(chain[:-1], chain[1:]):
            eq, actx = rules[(a_, b_)]
            env = dict(actx.params)
            env["value"] = q
            try:
                q = eval_eq(R.parse(eq), env, mm)
            except ZeroDivisionError:
                ok = False
                break
        if not ok:
            out.add("zerodiv")
            continue
        # final plain conversion needs identical dimensionality
        _, _, qd = mm.expand({k: v for k, v in q.u.items()})
        if dimkey(qd) != dk:
            out.add("dimerr")
            continue
        if q.u != rd:
            # same dimension, different root units (dimensionless roots): factor 1
            pass
        out.add(q.v / fdv)
    return out
