"""INDEPENDENT reference model of pint's definition language and unit algebra.

Shares no code with pint (no import of pint anywhere in this file).  It reads definition
text by its own rules, evaluates right-hand sides with its own recursive-descent parser
over fractions.Fraction, and expands every unit to (factor, root-unit exponents,
base-dimension exponents) by its own recursion.

Numbers are `Val(v, exact)`: v is a Fraction when exact, a float otherwise.  A value
becomes inexact only when a non-integer power is applied to a scale != 1 (7 bundled
definitions) and the taint propagates through everything built on it.
"""
from __future__ import annotations

import math
import os
import re
from fractions import Fraction as F


# ---------------------------------------------------------------------------
# numbers with an explicit exactness flag
# ---------------------------------------------------------------------------
class Val:
    __slots__ = ("v", "exact")

    def __init__(self, v, exact=True):
        self.v = v
        self.exact = exact

    def __repr__(self):
        return f"Val({self.v!r},{'exact' if self.exact else 'approx'})"

    def f(self) -> float:
        return float(self.v)


ONE = Val(F(1))


def vmul(a: Val, b: Val) -> Val:
    if a.exact and b.exact:
        return Val(a.v * b.v)
    return Val(float(a.v) * float(b.v), False)


def vadd(a: Val, b: Val, sign=1) -> Val:
    if a.exact and b.exact:
        return Val(a.v + sign * b.v)
    return Val(float(a.v) + sign * float(b.v), False)


def vpow(a: Val, e: F) -> Val:
    e = F(e)
    if e.denominator == 1 and a.exact:
        if a.v == 0 and e < 0:
            raise ZeroDivisionError
        return Val(a.v ** int(e))
    if a.exact and a.v == 1:
        return Val(F(1))
    return Val(float(a.v) ** float(e), False)


def madd(d, k, e):
    v = d.get(k, 0) + e
    if v == 0:
        d.pop(k, None)
    else:
        d[k] = v


def mmul(a: dict, b: dict, e=1) -> dict:
    d = dict(a)
    for k, v in b.items():
        madd(d, k, v * e)
    return d


def mscale(a: dict, e) -> dict:
    return {k: v * e for k, v in a.items() if v * e != 0}


# ---------------------------------------------------------------------------
# arithmetic: tokenizer + recursive descent -> AST
# ---------------------------------------------------------------------------
_NUM = r"(?:\d+\.?\d*(?:[eE][+-]?\d+)?|\.\d+(?:[eE][+-]?\d+)?)"
_NAME = r"(?:\[\]|\[[^\W\d][\w]*\]|[^\W\d][\w]*|[°%‰Δ][\w]*)"
_TOK = re.compile(r"\s*(?:(" + _NUM + r")|(" + _NAME + r")|(\*\*|\^|//|[-+*/()]))", re.U)


def tokenize(s: str):
    s = s.strip()
    pos, out = 0, []
    while pos < len(s):
        m = _TOK.match(s, pos)
        if not m or m.end() == pos:
            raise SyntaxError(f"bad token at {s[pos:]!r} in {s!r}")
        num, name, op = m.groups()
        if num is not None:
            out.append(("num", num))
        elif name is not None:
            out.append(("name", name))
        else:
            out.append(("op", "**" if op == "^" else op))
        pos = m.end()
    return out


class _P:
    def __init__(self, toks):
        self.t, self.i = toks, 0

    def peek(self):
        return self.t[self.i] if self.i < len(self.t) else (None, None)

    def next(self):
        x = self.peek()
        self.i += 1
        return x

    def expr(self):
        v = self.term()
        while self.peek() in (("op", "+"), ("op", "-")):
            op = self.next()[1]
            v = ("bin", op, v, self.term())
        return v

    def term(self):
        v = self.unary()
        while True:
            k, x = self.peek()
            if (k, x) in (("op", "*"), ("op", "/"), ("op", "//")):
                self.next()
                v = ("bin", x, v, self.unary())
            elif k in ("num", "name") or (k, x) == ("op", "("):
                v = ("bin", "*", v, self.unary())  # juxtaposition
            else:
                return v

    def unary(self):
        if self.peek() == ("op", "-"):
            self.next()
            return ("neg", self.unary())
        if self.peek() == ("op", "+"):
            self.next()
            return self.unary()
        return self.pow()

    def pow(self):
        b = self.atom()
        if self.peek() == ("op", "**"):
            self.next()
            return ("bin", "**", b, self.unary())  # right assoc, unary allowed in exponent
        return b

    def atom(self):
        k, x = self.next()
        if k == "num":
            return ("num", x)
        if k == "name":
            return ("name", x)
        if (k, x) == ("op", "("):
            v = self.expr()
            if self.next() != ("op", ")"):
                raise SyntaxError("expected )")
            return v
        raise SyntaxError(f"unexpected {k} {x}")


def parse(s: str):
    p = _P(tokenize(s))
    v = p.expr()
    if p.i != len(p.t):
        raise SyntaxError("trailing " + repr(p.t[p.i:]))
    return v


def eval_def(ast):
    """AST -> (Val scale, {name: Fraction exponent}); + and - only between pure numbers."""
    k = ast[0]
    if k == "num":
        return Val(F(ast[1])), {}
    if k == "name":
        return Val(F(1)), {ast[1]: F(1)}
    if k == "neg":
        s, d = eval_def(ast[1])
        return Val(-s.v, s.exact), d
    op, a, b = ast[1], eval_def(ast[2]), eval_def(ast[3])
    if op in "+-":
        if a[1] or b[1]:
            raise ValueError("addition of units in a definition")
        return vadd(a[0], b[0], 1 if op == "+" else -1), {}
    if op == "*":
        return vmul(a[0], b[0]), mmul(a[1], b[1])
    if op == "/":
        return vmul(a[0], vpow(b[0], F(-1))), mmul(a[1], b[1], -1)
    if op == "**":
        if b[1] or not b[0].exact:
            raise ValueError("non-numeric exponent")
        return vpow(a[0], b[0].v), mscale(a[1], b[0].v)
    raise ValueError(op)


def evaluate(s: str):
    return eval_def(parse(s))


# ---------------------------------------------------------------------------
# reader
# ---------------------------------------------------------------------------
class Model:
    def __init__(self):
        self.units: dict[str, dict] = {}      # canonical -> scale, ref, symbol, aliases, mods, group
        self.spell: dict[str, str] = {}       # every defined spelling -> canonical
        self.prefixes: dict[str, dict] = {}   # canonical -> value, symbol, aliases
        self.pspell: dict[str, str] = {}
        self.dims: dict[str, dict] = {}       # derived dimension -> reference exponents
        self.base_dims: set[str] = set()
        self.groups: dict[str, dict] = {}
        self.systems: dict[str, dict] = {}
        self.contexts: dict[str, dict] = {}
        self.ctx_alias: dict[str, str] = {}
        self.defaults: dict[str, str] = {}
        self.order: list[str] = []            # canonical unit names in file order
        self._memo: dict[str, tuple] = {}

    # -- name resolution ---------------------------------------------------
    def readings(self, s: str):
        """All (prefix canonical, unit canonical) readings of a string that is NOT an
        exact spelling: prefix spelling + unit spelling + optional plural 's'."""
        out = []
        for suf in ("", "s"):
            if suf and not s.endswith("s"):
                continue
            stem = s[:-1] if suf else s
            for p, pc in [("", "")] + list(self.pspell.items()):
                if not stem.startswith(p):
                    continue
                u = stem[len(p):]
                if suf and len(u) == 1:
                    continue
                if u in self.spell:
                    r = (pc, self.spell[u])
                    if r not in out:
                        out.append(r)
        return out

    def resolve(self, s: str):
        """-> (prefix canonical or '', unit canonical).  Exact spelling first."""
        if s in self.spell:
            return "", self.spell[s]
        r = self.readings(s)
        if not r:
            raise KeyError(s)
        return r[0]

    def prefix_value(self, pc: str) -> Val:
        return Val(self.prefixes[pc]["value"]) if pc else ONE

    # -- expansion ---------------------------------------------------------
    def dim_expand(self, d: str, e, acc: dict):
        if d == "[]":
            return
        if d in self.dims:
            for k, v in self.dims[d].items():
                self.dim_expand(k, v * e, acc)
        else:
            madd(acc, d, e)

    def root(self, name: str):
        """canonical unit -> (Val factor, {root unit: exp}, {base dim: exp})."""
        if name in self._memo:
            r = self._memo[name]
            if r is None:
                raise RecursionError(f"cycle through {name}")
            return r
        self._memo[name] = None
        try:
            u = self.units[name]
            if u["is_base"]:
                dm: dict = {}
                for k, v in u["ref"].items():
                    self.dim_expand(k, v, dm)
                res = (ONE, {name: F(1)}, dm)
            else:
                f, ru, dm = u["scale"], {}, {}
                for r, e in u["ref"].items():
                    pv, rr, rd = self.root_of_spelling(r)
                    f = vmul(f, vpow(pv, e))
                    ru = mmul(ru, rr, e)
                    dm = mmul(dm, rd, e)
                res = (f, ru, dm)
        except BaseException:
            del self._memo[name]
            raise
        self._memo[name] = res
        return res

    def root_of_spelling(self, s: str):
        pc, c = self.resolve(s)
        f, ru, dm = self.root(c)
        return vmul(self.prefix_value(pc), f), ru, dm

    def expand(self, units: dict):
        """{spelling: exp} -> (Val, root exps, dim exps)."""
        f, ru, dm = ONE, {}, {}
        for s, e in units.items():
            e = F(e)
            pv, rr, rd = self.root_of_spelling(s)
            f = vmul(f, vpow(pv, e))
            ru = mmul(ru, rr, e)
            dm = mmul(dm, rd, e)
        return f, ru, dm

    def dimvec(self, units: dict) -> dict:
        dm: dict = {}
        for s, e in units.items():
            if s.startswith("["):
                self.dim_expand(s, F(e), dm)
            else:
                dm = mmul(dm, self.root_of_spelling(s)[2], F(e))
        return dm

    def is_multiplicative(self, c: str) -> bool:
        return not self.units[c]["mods"]

    def tainted(self, c: str) -> bool:
        return not self.root(c)[0].exact

    # -- groups / systems ----------------------------------------------------
    def group_members(self, g: str, _seen=None) -> set:
        _seen = _seen or set()
        if g in _seen:
            raise RecursionError("group cycle")
        _seen = _seen | {g}
        if g == "root":
            return set(self.units)
        out = set(self.groups[g]["units"])
        for h in self.groups[g]["using"]:
            out |= self.group_members(h, _seen)
        return out

    def system_members(self, s: str) -> set:
        out = set()
        for g in self.systems[s]["using"]:
            out |= self.group_members(g)
        return out


def _split_eq(line: str):
    return [p.strip() for p in line.split("=")]


def _strip_comment(raw: str) -> str:
    return raw.split("#", 1)[0].strip()


def read_text(text: str, base_dir: str | None = None, model: Model | None = None) -> Model:
    m = model or Model()
    block = None
    for raw in text.splitlines():
        line = _strip_comment(raw)
        if not line:
            continue
        if block is not None:
            if line == "@end":
                kind, head, body = block
                block = None
                _finish_block(m, kind, head, body)
            else:
                block[2].append(line)
            continue
        if line.startswith("@import"):
            path = line.split(None, 1)[1].strip()
            read_file(os.path.join(base_dir or ".", path), m)
            continue
        if line.startswith("@alias "):
            name, *al = _split_eq(line[7:])
            c = m.spell[name]
            m.units[c]["aliases"] += al
            for a in al:
                m.spell[a] = c
            continue
        if line.startswith("@"):
            kind = line.split()[0].split("(")[0]
            block = (kind, line, [])
            continue
        add_line(m, line)
    if block is not None:
        raise SyntaxError("unterminated block " + block[1])
    return m


def read_file(path: str, model: Model | None = None) -> Model:
    with open(path, encoding="utf-8") as fh:
        return read_text(fh.read(), os.path.dirname(path), model)


def add_line(m: Model, line: str, group: str | None = None):
    parts = _split_eq(line)
    name = parts[0]
    if name.endswith("-"):
        val = evaluate(parts[1])
        if val[1]:
            raise ValueError("prefix with units")
        rest = [p.rstrip("-") for p in parts[2:]]
        sym = rest[0] if rest and rest[0] != "_" else None
        al = [a for a in rest[1:] if a not in ("", "_")]
        n = name.rstrip("-")
        m.prefixes[n] = dict(value=val[0].v, symbol=sym, aliases=al)
        for s in [n] + ([sym] if sym else []) + al:
            m.pspell[s] = n
        return
    if name.startswith("["):
        if len(parts) == 1:
            m.base_dims.add(name)
            return
        m.dims[name] = evaluate(parts[1])[1]
        return
    rhs, mods = parts[1], {}
    if ";" in rhs:
        rhs, *ms = rhs.split(";")
        for x in ms:
            k, v = x.split(":")
            mods[k.strip()] = evaluate(v)[0]
    sc, ref = evaluate(rhs) if rhs.strip() else (ONE, {})
    rest = parts[2:]
    sym = rest[0] if rest and rest[0] != "_" else None
    al = [a for a in rest[1:] if a not in ("", "_")]
    is_base = bool(ref) and all(k.startswith("[") for k in ref)
    if not is_base and any(k.startswith("[") for k in ref):
        raise ValueError("mixed dimension / unit reference in " + line)
    if name in m.units:
        # last definition wins (same as a dict assignment); spellings of the old one stay
        pass
    else:
        m.order.append(name)
    m.units[name] = dict(scale=sc, ref=ref, symbol=sym, aliases=al, mods=mods, group=group,
                         is_base=is_base)
    if is_base:
        for k in ref:
            if k not in m.dims:
                m.base_dims.add(k)
    m._memo.clear()
    for s in [name] + ([sym] if sym else []) + al:
        m.spell[s] = name


_CTX_HEAD = re.compile(r"@context\s*(\(.*\))?\s*([\w]+)\s*(?:=(.*))?$", re.U)
_REL = re.compile(r"^(.*?)(<->|->)(.*?):(.*)$")


def _finish_block(m: Model, kind: str, head: str, body: list[str]):
    if kind == "@defaults":
        for b in body:
            k, v = _split_eq(b)
            m.defaults[k] = v
    elif kind == "@group":
        mm = re.match(r"@group\s+(\w+)\s*(?:using\s+(.*))?$", head)
        g = mm.group(1)
        using = [x.strip() for x in (mm.group(2) or "").split(",") if x.strip()]
        names = []
        for b in body:
            if "=" in b:
                add_line(m, b, group=g)
                names.append(b.split("=")[0].strip())
            else:
                names.append(b.strip())
        m.groups[g] = dict(using=using, units=names)
    elif kind == "@system":
        mm = re.match(r"@system\s+(\w+)\s*(?:using\s+(.*))?$", head)
        s = mm.group(1)
        using = [x.strip() for x in (mm.group(2) or "").split(",") if x.strip()] or ["root"]
        m.systems[s] = dict(using=using,
                            rules=[tuple(x.strip() for x in b.split(":")) for b in body])
    elif kind == "@context":
        mm = _CTX_HEAD.match(head)
        defaults = {}
        if mm.group(1):
            for kv in mm.group(1)[1:-1].split(","):
                if kv.strip():
                    k, v = kv.split("=")
                    defaults[k.strip()] = v.strip()
        name = mm.group(2)
        aliases = [a.strip() for a in (mm.group(3) or "").split("=") if a.strip()]
        rels, redefs = [], []
        for b in body:
            r = _REL.match(b)
            if r and "[" in r.group(1):
                src = evaluate(r.group(1))[1]
                dst = evaluate(r.group(3))[1]
                rels.append(dict(src=src, dst=dst, bidir=r.group(2) == "<->",
                                 eq=r.group(4).strip()))
            else:
                redefs.append(b)
        m.contexts[name] = dict(defaults=defaults, aliases=aliases, relations=rels,
                                redefs=redefs)
        for a in aliases:
            m.ctx_alias[a] = name
    else:
        raise SyntaxError("unknown directive " + head)


# ---------------------------------------------------------------------------
# convenience used by several checks
# ---------------------------------------------------------------------------
def ratio(m: Model, a: dict, b: dict) -> Val:
    """factor such that  x [a] == x * factor [b]  (multiplicative units only)."""
    fa, fb = m.expand(a)[0], m.expand(b)[0]
    return vmul(fa, vpow(fb, F(-1)))


def default_model(repo: str) -> Model:
    return read_file(os.path.join(repo, "pint", "default_en.txt"))
