"""Helpers for checks/c18.py.

1. Structural fingerprints of pint objects (independent of pint's own __eq__/__hash__):
   JSON-able, so that a fingerprint taken in a child interpreter can be compared with one
   taken in the shard.
2. Recipes: JSON-able descriptions from which the same object can be built in any registry.
3. The child entry point (`python -m harness.c18_child JOBFILE OUTFILE`): a FRESH interpreter
   whose application registry has never parsed anything.  Two job kinds:
     "unpickle": configure the application registry as the job says, load pickles one by one,
                 report (were the mentioned prefixed units absent before?, fingerprint,
                 attachment, registration of every mentioned unit, a conversion through the
                 application registry);
     "lazy":     fire exactly one trigger on the untouched lazy default registry (or install a
                 registry with set_application_registry), then answer a probe battery through
                 the module-level objects and through an explicitly built UnitRegistry.
"""
from __future__ import annotations

import hashlib
import json
import math
import pickle
import sys
from decimal import Decimal
from fractions import Fraction


# ---------------------------------------------------------------------------
# fingerprints
# ---------------------------------------------------------------------------
def tname(x) -> str:
    t = type(x)
    return f"{t.__module__}.{t.__qualname__}"


def fp_number(x):
    """Type-tagged exact rendering of a magnitude / exponent / scale."""
    try:
        import numpy as np
    except Exception:  # pragma: no cover
        np = None
    if np is not None and isinstance(x, np.ndarray):
        if x.dtype == object:
            body = [fp_number(v) for v in x.ravel().tolist()]
        else:
            body = hashlib.blake2b(np.ascontiguousarray(x).tobytes(), digest_size=8).hexdigest()
        return ["ndarray", str(x.dtype), list(x.shape), body]
    if np is not None and isinstance(x, np.generic):
        return ["npscalar", str(x.dtype), repr(x.item())]
    if hasattr(x, "nominal_value") and hasattr(x, "std_dev"):
        return ["ufloat", fp_number(x.nominal_value), fp_number(x.std_dev)]
    if isinstance(x, bool):
        return ["bool", repr(x)]
    if isinstance(x, int):
        return ["int", str(x)]
    if isinstance(x, float):
        return ["float", x.hex() if x == x else "nan"]
    if isinstance(x, complex):
        return ["complex", repr(x)]
    if isinstance(x, Fraction):
        return ["Fraction", f"{x.numerator}/{x.denominator}"]
    if isinstance(x, Decimal):
        return ["Decimal", str(x)]
    return [tname(x), repr(x)]


def has_nan(x) -> bool:
    try:
        import numpy as np
        if isinstance(x, np.ndarray):
            return bool(x.dtype.kind in "fc" and np.isnan(x).any())
    except Exception:  # pragma: no cover
        pass
    if hasattr(x, "nominal_value"):
        return has_nan(x.nominal_value) or has_nan(x.std_dev)
    try:
        return x != x
    except Exception:
        return False


def fp_container(uc):
    out = {"cls": type(uc).__name__, "nit": uc._non_int_type.__name__,
           "one": fp_number(uc._one),
           "items": sorted([k, fp_number(v)] for k, v in uc._d.items())}
    if type(uc).__name__ == "ParserHelper":
        out["scale"] = fp_number(uc.scale)
    return out


def kind_of(o) -> str:
    names = [c.__name__ for c in type(o).__mro__]
    if "Measurement" in names:
        return "Measurement"
    if "PlainQuantity" in names:
        return "Quantity"
    if "PlainUnit" in names:
        return "Unit"
    if "ParserHelper" in names:
        return "ParserHelper"
    if "UnitsContainer" in names:
        return "UnitsContainer"
    if isinstance(o, BaseException):
        return "Exception"
    return "other:" + type(o).__name__


def fp_value(v, depth=0):
    """Fingerprint of an arbitrary field value (exception fields hold anything)."""
    k = kind_of(v)
    if k in ("Measurement", "Quantity", "Unit", "ParserHelper", "UnitsContainer"):
        return fp_obj(v)
    if isinstance(v, type):
        return ["type", f"{v.__module__}.{v.__qualname__}"]
    if isinstance(v, (tuple, list)) and depth < 4:
        return [type(v).__name__, [fp_value(x, depth + 1) for x in v]]
    if isinstance(v, (set, frozenset)) and depth < 4:
        return [type(v).__name__, sorted(json.dumps(fp_value(x, depth + 1)) for x in v)]
    if isinstance(v, dict) and depth < 4:
        return ["dict", sorted([json.dumps(fp_value(a, depth + 1)), fp_value(b, depth + 1)]
                               for a, b in v.items())]
    if v is None or isinstance(v, str):
        return [type(v).__name__, v]
    if isinstance(v, (int, float, complex, Fraction, Decimal)) or hasattr(v, "dtype"):
        return fp_number(v)
    return ["repr", tname(v), repr(v)]


def exc_fields(e) -> dict:
    """Instance fields of an exception: vars() plus class-annotated names."""
    out = {}
    names = set(vars(e))
    for c in type(e).__mro__:
        if c.__module__.startswith("pint"):
            names.update(getattr(c, "__annotations__", {}))
    for n in sorted(names):
        try:
            out[n] = fp_value(getattr(e, n))
        except AttributeError:
            out[n] = ["<unset>"]
    return out


def fp_obj(o):
    k = kind_of(o)
    if k in ("UnitsContainer", "ParserHelper"):
        return {"kind": k, **fp_container(o)}
    if k == "Unit":
        return {"kind": k, "units": fp_container(o._units)}
    if k in ("Quantity", "Measurement"):
        return {"kind": k, "mag": fp_number(o._magnitude), "units": fp_container(o._units)}
    if k == "Exception":
        try:
            msg = str(o)
        except Exception as ex:  # noqa: BLE001
            msg = f"<str raised {type(ex).__name__}>"
        return {"kind": k, "cls": f"{type(o).__module__}.{type(o).__qualname__}",
                "fields": exc_fields(o), "str": msg}
    return {"kind": k, "repr": repr(o)}


def norm(fp):
    """Same shape as after a JSON trip (tuples -> lists)."""
    return json.loads(json.dumps(_plain(fp)))


# ---------------------------------------------------------------------------
# recipes
# ---------------------------------------------------------------------------
def build_mag(r):
    import numpy as np
    t = r[0]
    if t == "int":
        return int(r[1])
    if t == "float":
        return float.fromhex(r[1]) if r[1] != "nan" else math.nan
    if t == "fraction":
        return Fraction(r[1])
    if t == "decimal":
        return Decimal(r[1])
    if t == "complex":
        return complex(r[1], r[2])
    if t == "npscalar":
        return np.dtype(r[1]).type(r[2])
    if t == "ndarray":
        return np.array(r[3], dtype=r[1]).reshape(r[2])
    raise ValueError(r)


def build_units(ureg, terms):
    """terms = [[spelling, exponent recipe], ...] -> Unit of `ureg` (parses every spelling, so
    prefixed units get registered in `ureg` exactly as a user's parse would do)."""
    u = None
    for name, e in terms:
        f = ureg.Unit(name)
        ex = build_mag(e)
        if not (isinstance(ex, int) and ex == 1):
            f = f ** ex
        u = f if u is None else u * f
    return u if u is not None else ureg.Unit("")


def build(ureg, recipe):
    k = recipe["kind"]
    u = build_units(ureg, recipe["units"])
    if k == "Unit":
        return u
    if k == "Quantity":
        return ureg.Quantity(build_mag(recipe["mag"]), u)
    if k == "Measurement":
        return ureg.Measurement(build_mag(recipe["mag"]), build_mag(recipe["err"]), u)
    raise ValueError(k)


# ---------------------------------------------------------------------------
# a value summary that two registries must agree on (used after unpickling)
# ---------------------------------------------------------------------------
def physical(o):
    """(dimensionality items, root magnitude) through the object's own registry."""
    k = kind_of(o)
    try:
        if k == "Unit":
            q = o._REGISTRY.Quantity(1, o._units)
        elif k == "Measurement":
            q = o._REGISTRY.Quantity(o._magnitude.nominal_value, o._units)
        else:
            q = o
        dim = sorted([a, float(b)] for a, b in q.dimensionality.items())
        try:
            m = q.to_root_units().magnitude
            if isinstance(m, (int, float, Fraction, Decimal)):
                m = ["num", float(m)]
            elif hasattr(m, "dtype") and getattr(m, "size", 99) <= 64:
                import numpy as np
                z = np.asarray(m).astype(complex).ravel()
                m = ["arr", [[float(v.real), float(v.imag)] for v in z]]
            else:
                m = fp_number(m)
        except Exception as e:  # noqa: BLE001  offset compound units etc.
            m = ["ERR", type(e).__name__]
        return {"dim": dim, "root": m}
    except Exception as e:  # noqa: BLE001
        return {"ERR": type(e).__name__, "msg": str(e)[:200]}


# ---------------------------------------------------------------------------
# lazy / application-registry battery
# ---------------------------------------------------------------------------
BATTERY_UNITS = ["meter", "kilometer", "microsecond", "degC", "delta_degF", "dB", "furlong",
                 "gigaelectron_volt", "mmHg", "planck_length", "percent", "radian", "byte",
                 "kibibyte", "cm", "µs", "kWh", "ounce", "US_pint", "atomic_mass_constant"]
BATTERY_EXPR = ["3 km/h", "2.5 kilogram * meter / second**2", "5 %", "1e3 µm", "4 furlong per fortnight",
                "12 inch + 1 foot", "100 degC", "1/3 cup", "6.02e23 / mole", "7 kilometers", "2 sq ft",
                "8 zork_c18_undefined", "3 m + 2 s", "", "hbar * c", "10 dBm"]


def _ans(f):
    try:
        v = f()
    except Exception as e:  # noqa: BLE001
        return ["ERR", type(e).__name__]
    return v


def _q(q):
    k = kind_of(q)
    if k in ("Quantity", "Unit", "Measurement", "UnitsContainer", "ParserHelper"):
        return fp_obj(q)
    if isinstance(q, (frozenset, set)):
        return sorted(json.dumps(_q(x), sort_keys=True) for x in q)
    if isinstance(q, (tuple, list)):
        return [_q(x) for x in q]
    if isinstance(q, dict):
        return sorted([str(a), _q(b)] for a, b in q.items())
    return fp_value(q)


def battery(reg, Q, U, M, seed, spellings):
    """Answers of one registry, reached through (reg, Q, U, M).  Same call order on every side,
    so lazily registered prefixed units appear identically."""
    import random
    rng = random.Random(seed)
    out = {}
    out["settings"] = {
        "default_system": _ans(lambda: reg.default_system),
        "default_format": _ans(lambda: reg.formatter.default_format),
        "non_int_type": _ans(lambda: reg.non_int_type.__name__),
        "case_sensitive": _ans(lambda: reg.case_sensitive),
        "auto_reduce": _ans(lambda: reg.auto_reduce_dimensions),
        "autoconvert_offset": _ans(lambda: reg.autoconvert_offset_to_baseunit),
        "default_as_delta": _ans(lambda: reg.default_as_delta),
        "force_ndarray": _ans(lambda: [reg.force_ndarray, reg.force_ndarray_like]),
        "cache_folder": _ans(lambda: repr(reg.cache_folder)),
    }
    out["n_units"] = _ans(lambda: len(list(reg)))
    out["units_hash"] = _ans(lambda: hashlib.blake2b("\n".join(list(reg)).encode(), digest_size=8).hexdigest())
    out["contains"] = [_ans(lambda: u in reg) for u in ("meter", "kilofurlong", "zork_c18_undefined")]
    out["dir_has"] = _ans(lambda: [n in dir(reg) for n in ("meter", "Quantity", "define")])
    out["groups"] = _ans(lambda: sorted(reg._groups))
    out["systems"] = _ans(lambda: sorted(reg._systems))
    out["sys_dir"] = _ans(lambda: sorted(dir(reg.sys.mks))[:40])
    out["contexts"] = _ans(lambda: sorted(reg._contexts))
    for e in BATTERY_EXPR:
        out["expr:" + e] = _ans(lambda: _q(reg.parse_expression(e)))
        out["call:" + e] = _ans(lambda: _q(reg(e)))
        out["Q(str):" + e] = _ans(lambda: _q(Q(e)))
    pool = BATTERY_UNITS + rng.sample(spellings, min(40, len(spellings)))
    for u in pool:
        out["dim:" + u] = _ans(lambda: _q(reg.get_dimensionality(u)))
        out["root:" + u] = _ans(lambda: _q(reg.get_root_units(u)))
        out["base:" + u] = _ans(lambda: _q(reg.get_base_units(u)))
        out["name:" + u] = _ans(lambda: [reg.get_name(u), reg.get_symbol(u)])
        out["U:" + u] = _ans(lambda: _q(U(u)))
        out["getattr:" + u] = _ans(lambda: _q(getattr(reg, u)))
        out["compat:" + u] = _ans(lambda: len(reg.get_compatible_units(u)))
        out["str:" + u] = _ans(lambda: [str(Q(1.5, u)), repr(Q(1.5, u)), format(Q(1.5, u), "~P"),
                                        format(U(u), "~"), f"{Q(1234.5, u):.2f~L}"])
    for _ in range(60):
        a, b = rng.choice(pool), rng.choice(pool)
        out[f"conv:{a}->{b}"] = _ans(lambda: fp_number(reg.convert(1.5, a, b)))
        out[f"to:{a}->{b}"] = _ans(lambda: _q(Q(2.5, a).to(b)))
        out[f"mulQQ:{a},{b}"] = _ans(lambda: _q(Q(2.0, a) * Q(3.0, b)))
        out[f"divQQ:{a},{b}"] = _ans(lambda: _q(Q(2.0, a) / Q(3.0, b)))
        out[f"mulQU:{a},{b}"] = _ans(lambda: _q(Q(2.0, a) * U(b)))
        out[f"divQU:{a},{b}"] = _ans(lambda: _q(Q(2.0, a) / U(b)))
        out[f"mulUQ:{a},{b}"] = _ans(lambda: _q(U(a) * Q(2.0, b)))
        out[f"divUQ:{a},{b}"] = _ans(lambda: _q(U(a) / Q(2.0, b)))
        out[f"mulUU:{a},{b}"] = _ans(lambda: _q(U(a) * U(b)))
        out[f"divUU:{a},{b}"] = _ans(lambda: _q(U(a) / U(b)))
        out[f"powU:{a}"] = _ans(lambda: _q(U(a) ** 2))
        out[f"addQQ:{a}"] = _ans(lambda: _q(Q(2.0, a) + Q(3.0, a)))
        out[f"rmulU:{a}"] = _ans(lambda: _q(3 * U(a)))
        out[f"ltQQ:{a},{b}"] = _ans(lambda: _q(Q(2.0, a) < Q(3.0, b)))
        out[f"eqQQ:{a}"] = _ans(lambda: _q(Q(2.0, a) == Q(2.0, a)))
        out[f"eqQU:{a}"] = _ans(lambda: _q(Q(1, a) == U(a)))
        out[f"ltUU:{a},{b}"] = _ans(lambda: _q(U(a) < U(b)))
        out[f"QfromU:{a}"] = _ans(lambda: _q(Q(2.0, U(a))))
        out[f"to(U):{a},{b}"] = _ans(lambda: _q(Q(2.0, a).to(U(b))))
    for u in ("kilometer", "inch", "gram", "hour"):
        out["compact:" + u] = _ans(lambda: _q(Q(123456.0, u).to_compact()))
        out["tobase:" + u] = _ans(lambda: _q(Q(3.0, u).to_base_units()))
        out["tuple:" + u] = _ans(lambda: _q(Q.from_tuple(Q(3.0, u).to_tuple())))
        out["meas:" + u] = _ans(lambda: _q(M(3.0, 0.25, u)))
        out["meas_pm:" + u] = _ans(lambda: _q(Q(3.0, u).plus_minus(0.5)))
        out["copy:" + u] = _ans(lambda: _q(__import__("copy").deepcopy(Q(3.0, u))))
        out["isinst:" + u] = _ans(lambda: [type(Q(1, u)).__name__, type(U(u)).__name__,
                                           Q(1, u)._REGISTRY is _unwrap(reg), U(u)._REGISTRY is _unwrap(reg),
                                           (Q(1, u) * Q(2, u))._REGISTRY is _unwrap(reg),
                                           Q(1, u).to_base_units()._REGISTRY is _unwrap(reg)])
    out["ctx:sp"] = _ans(lambda: _q(Q(500.0, "nm").to("THz", "sp")))
    out["with_ctx"] = _ans(lambda: _with_ctx(reg, Q))
    out["wraps"] = _ans(lambda: _q(reg.wraps("m", ("cm",))(lambda x: x * 2)(Q(3.0, "m"))))
    out["check"] = _ans(lambda: reg.check("[length]")(lambda x: 1)(Q(3.0, "s")))
    out["pi_theorem"] = _ans(lambda: _q(reg.pi_theorem({"V": "m/s", "T": "s", "L": "m"})))
    out["system:cgs"] = _ans(lambda: _sys(reg, Q))
    # evolution of the registry itself (last: it mutates)
    out["define_new"] = _ans(lambda: (reg.define("zork_c18 = 3 meter = zk18"), _q(Q(2, "zk18").to("m")))[1])
    out["define_alias"] = _ans(lambda: (reg.define("@alias zork_c18 = zorky18"), _q(Q(2, "zorky18").to("m")))[1])
    # a spelling first READ as prefix + unit, then given its own definition, then read again (every
    # memoised reading of it must follow the definition)
    out["define_after_read:before"] = _ans(lambda: [str(U("mmi")), _q(Q(3, "mmi").to("mile")), str(reg.parse_units("mmi / s"))])
    out["define_after_read:define"] = _ans(lambda: (reg.define("mmi = 1000 * mile"), "accepted")[1])
    out["define_after_read:after"] = _ans(lambda: [str(U("mmi")), _q(Q(3, "mmi").to("mile")), str(reg.parse_units("mmi / s")),
                                                     _q(reg.parse_expression("3 mmi").to("mile"))])
    out["redefine"] = _ans(lambda: (reg.define("meter = 2 foot"), "accepted")[1])
    return norm(out)


def _unwrap(reg):
    return reg.get() if type(reg).__name__ == "ApplicationRegistry" else reg


def _with_ctx(reg, Q):
    with reg.context("sp"):
        return _q(Q(500.0, "nm").to("THz"))


def _sys(reg, Q):
    old = reg.default_system
    reg.default_system = "cgs"
    try:
        return _q(Q(1.0, "m").to_base_units())
    finally:
        reg.default_system = old


TRIGGERS = {
    # name -> (statement fired first on the untouched module, same thing on an explicit registry)
    "Quantity(str)": (lambda pint: pint.Quantity("3 m"), lambda r: r.Quantity("3 m")),
    "Quantity(v,u)": (lambda pint: pint.Quantity(3, "m"), lambda r: r.Quantity(3, "m")),
    "Unit": (lambda pint: pint.Unit("m"), lambda r: r.Unit("m")),
    "Measurement": (lambda pint: pint.Measurement(1.0, 0.1, "m"), lambda r: r.Measurement(1.0, 0.1, "m")),
    "app.getattr": (lambda pint: pint.get_application_registry().meter, lambda r: r.meter),
    "app.call": (lambda pint: pint.get_application_registry()("3 m"), lambda r: r("3 m")),
    "app.getitem": (lambda pint: pint.get_application_registry()["m"], lambda r: r["m"]),
    "app.contains": (lambda pint: "meter" in pint.get_application_registry(), lambda r: "meter" in r),
    "app.iter": (lambda pint: len(list(pint.get_application_registry())), lambda r: len(list(r))),
    "app.dir": (lambda pint: "meter" in dir(pint.get_application_registry()), lambda r: "meter" in dir(r)),
    "app.method": (lambda pint: pint.get_application_registry().parse_units("m/s"), lambda r: r.parse_units("m/s")),
    "app.setattr": (lambda pint: setattr(pint.get_application_registry(), "autoconvert_offset_to_baseunit", False),
                    lambda r: setattr(r, "autoconvert_offset_to_baseunit", False)),
    "default.call": (lambda pint: pint._DEFAULT_REGISTRY("3 m"), lambda r: r("3 m")),
    "default.getitem": (lambda pint: pint._DEFAULT_REGISTRY["m"], lambda r: r["m"]),
    "default.setattr": (lambda pint: setattr(pint._DEFAULT_REGISTRY, "autoconvert_offset_to_baseunit", False),
                        lambda r: setattr(r, "autoconvert_offset_to_baseunit", False)),
    # settings that are PROPERTIES of the registry class, assigned as the very first touch
    "app.set-default_system": (lambda pint: setattr(pint.get_application_registry(), "default_system", "cgs"),
                               lambda r: setattr(r, "default_system", "cgs")),
    "default.set-default_system": (lambda pint: setattr(pint._DEFAULT_REGISTRY, "default_system", "imperial"),
                                   lambda r: setattr(r, "default_system", "imperial")),
    "app.set-default_format": (lambda pint: setattr(pint.get_application_registry().formatter, "default_format", "~P"),
                               lambda r: setattr(r.formatter, "default_format", "~P")),
    "default.set-formatter-format": (lambda pint: setattr(pint._DEFAULT_REGISTRY, "default_format", ".3f~"),
                                     lambda r: setattr(r, "default_format", ".3f~")),
    "unpickle": None,           # handled in run_lazy
    "from_tuple": (lambda pint: pint.Quantity.from_tuple((3, (("meter", 1),))),
                   lambda r: r.Quantity.from_tuple((3, (("meter", 1),)))),
}
INSTALL = {
    # name -> kwargs; the module-level objects must then answer like UnitRegistry(**kwargs)
    "set:explicit-default": {},
    "set:explicit-decimal": {"non_int_type": "Decimal"},
    "set:explicit-fraction": {"non_int_type": "Fraction"},
    "set:explicit-autoreduce": {"auto_reduce_dimensions": True, "autoconvert_offset_to_baseunit": True},
    "set:lazy-default": {},
    "set:lazy-decimal": {"non_int_type": "Decimal"},
    "set:lazy-casei": {"case_sensitive": False},
    "set:lazy-system": {"system": "cgs"},
}


def _kw(kw):
    kw = dict(kw)
    if "non_int_type" in kw:
        kw["non_int_type"] = {"Decimal": Decimal, "Fraction": Fraction}[kw["non_int_type"]]
    return kw


def run_lazy(job):
    from harness import pintload  # noqa: F401  (pins the repo, silences logging)
    import pint

    name = job["trigger"]
    res = {"trigger": name}
    app = pint.application_registry
    res["lazy_before"] = type(app.get()).__name__
    res["policy_before"] = _ans(lambda: app.get()._on_redefinition)
    res["still_lazy_after_policy_query"] = type(app.get()).__name__
    policy = "raise"
    if name.startswith("set:"):
        kw = INSTALL[name]
        if "lazy" in name:
            new = pint.LazyRegistry(kwargs=_kw(kw))
        else:
            new = pint.UnitRegistry(**_kw(kw))
            policy = "warn"
        pint.set_application_registry(new)
        res["get_is_installed"] = pint.get_application_registry().get() is new
        res["default_untouched"] = type(pint._DEFAULT_REGISTRY).__name__
        q = pint.Quantity(2, "m")
        res["Q_attached"] = q._REGISTRY is new
        res["U_attached"] = pint.Unit("m")._REGISTRY is new
        res["M_attached"] = pint.Measurement(1.0, 0.1, "m")._REGISTRY is new
        res["installed_class_after_use"] = type(new).__name__
        obj = pickle.loads(pickle.dumps(q))
        res["unpickle_attached"] = obj._REGISTRY is new
        explicit = pint.UnitRegistry(**_kw(kw), on_redefinition=policy)
        res["first"] = norm(_q(q))
        res["first_explicit"] = norm(_q(explicit.Quantity(2, "m")))
    else:
        explicit = None
        if name == "unpickle":
            blob = bytes.fromhex(job["blob"])
            first = _ans(lambda: pickle.loads(blob))
        else:
            first = _ans(lambda: TRIGGERS[name][0](pint))
        res["first"] = norm(_q(first))
        res["class_after"] = type(app.get()).__name__
        res["default_is_app"] = pint._DEFAULT_REGISTRY is app.get()
        res["first_attached"] = (getattr(first, "_REGISTRY", None) is app.get()
                                 if hasattr(first, "_REGISTRY") else None)
        explicit = pint.UnitRegistry(on_redefinition="raise")
        if name == "unpickle":
            res["first_explicit"] = norm(_q(explicit.Quantity(3, "kilometer")))
        else:
            res["first_explicit"] = norm(_q(_ans(lambda: TRIGGERS[name][1](explicit))))
    res["policy"] = _ans(lambda: app.get()._on_redefinition)
    res["default_policy_explicit"] = pint.UnitRegistry()._on_redefinition
    res["lazy"] = battery(app, pint.Quantity, pint.Unit, pint.Measurement, job["seed"], job["spellings"])
    res["explicit"] = battery(explicit, explicit.Quantity, explicit.Unit, explicit.Measurement,
                              job["seed"], job["spellings"])
    return res


def run_unpickle(job):
    from harness import pintload  # noqa: F401
    import pint

    mode = job["app"]
    if mode == "lazy":
        pass
    elif mode == "set-float":
        pint.set_application_registry(pint.UnitRegistry())
    elif mode == "set-decimal":
        pint.set_application_registry(pint.UnitRegistry(non_int_type=Decimal))
    elif mode == "set-fraction":
        pint.set_application_registry(pint.UnitRegistry(non_int_type=Fraction))
    elif mode == "set-lazy":
        pint.set_application_registry(pint.LazyRegistry())
    else:
        raise ValueError(mode)
    app = pint.get_application_registry()
    items = pickle.load(open(job["pickles"], "rb"))
    out = []
    for it in items:
        r = {"id": it["id"]}
        reg = app.get()
        built = "_units" in vars(reg)
        r["absent_before"] = [n for n in (it["names"] or ()) if not built or n not in reg._units]
        try:
            obj = pickle.loads(it["blob"])
        except Exception as e:  # noqa: BLE001
            r["load_error"] = f"{type(e).__name__}: {e}"[:300]
            out.append(r)
            continue
        reg = app.get()
        r["fp"] = fp_obj(obj)
        r["type"] = type(obj).__name__
        if it["names"] is not None and hasattr(obj, "_REGISTRY"):
            r["attached"] = obj._REGISTRY is reg
            r["class_is_app"] = type(obj) is getattr(app, kind_of(obj))
            r["registered"] = [n for n in it["names"] if n not in reg._units]
            r["physical"] = physical(obj)
        out.append(r)
    return {"items": norm(out), "app_class": type(app.get()).__name__}


def _plain(x):
    """numpy scalars etc. -> JSON-able."""
    if isinstance(x, dict):
        return {str(k): _plain(v) for k, v in x.items()}
    if isinstance(x, (list, tuple)):
        return [_plain(v) for v in x]
    if x is None or isinstance(x, (bool, int, float, str)):
        return x
    if hasattr(x, "item"):
        try:
            return _plain(x.item())
        except Exception:  # noqa: BLE001
            pass
    return repr(x)


def main(argv):
    job = json.load(open(argv[0]))
    if job["job"] == "lazy":
        res = run_lazy(job)
    else:
        res = run_unpickle(job)
    json.dump(_plain(res), open(argv[1], "w"))


if __name__ == "__main__":
    main(sys.argv[1:3])
