import sys
from harness.core import shard_main

if __name__ == "__main__":
    shard_main(sys.argv[1:4])
