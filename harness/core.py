"""Core of the runtime-monitoring harness: tiers, seeds, shard runner, recorder,
known-findings matcher, evidence writer, verdict lines.

A check module (checks/cNN.py) provides
    PID, RULE, ASSUMPTIONS, LEVEL_NOTE (optional)
    shards(tier, seed) -> list[dict]      JSON-serialisable shard specs
    run_shard(spec, rec)                  executed in a fresh interpreter per shard
    required(tier) -> dict[str,int]       optional: counters that must reach a minimum,
                                          otherwise the run is INCONCLUSIVE
Everything random derives from spec['seed'] (random.Random), never from global state.
"""
from __future__ import annotations

import hashlib
import importlib
import json
import os
import random
import subprocess
import sys
import tempfile
import time
import traceback
from concurrent.futures import ThreadPoolExecutor

VERIF = os.path.dirname(os.path.dirname(os.path.abspath(__file__)))
PY = os.environ.get("VERIF_PYTHON", "/venv/bin/python")
DEPS = os.path.join(VERIF, ".deps")
WHEELS = "/opt/veriftools/wheels"
NCPU = int(os.environ.get("VERIF_JOBS", os.cpu_count() or 4))
MAX_VIOL_PER_MECH = 12


def repo_path() -> str:
    return os.path.realpath(os.environ.get("PINT_REPO", "/repo"))


def h64(obj) -> int:
    """Stable 64-bit hash of a JSON-ish key (independent of PYTHONHASHSEED)."""
    if not isinstance(obj, (str, bytes)):
        obj = repr(obj)
    if isinstance(obj, str):
        obj = obj.encode("utf-8", "surrogatepass")
    return int.from_bytes(hashlib.blake2b(obj, digest_size=8).digest(), "big")


def jsonable(x, depth=0):
    if depth > 6:
        return repr(x)
    if x is None or isinstance(x, (bool, int, str)):
        return x
    if isinstance(x, float):
        return x if x == x and abs(x) != float("inf") else repr(x)
    if isinstance(x, dict):
        return {str(k): jsonable(v, depth + 1) for k, v in x.items()}
    if isinstance(x, (list, tuple, set, frozenset)):
        return [jsonable(v, depth + 1) for v in x]
    return repr(x)


class Rec:
    """Per-shard recorder.  Only plain data leaves the shard."""

    def __init__(self, spec):
        self.spec = spec
        self.evals = 0
        self.keys: set[int] = set()
        self.counters: dict[str, int] = {}
        self.observed: dict[str, set] = {}
        self.samples: list = []
        self._nsample = 0
        self.viol: dict[str, list] = {}
        self.viol_count: dict[str, int] = {}
        self.inconclusive: list[str] = []
        self.maxima: dict[str, float] = {}
        self._rng = random.Random(spec.get("seed", 0) ^ 0x5EED)

    # -- coverage ---------------------------------------------------------
    def case(self, key=None, nontrivial=True, n=1):
        """One evaluated case; `key` identifies it for distinct counting."""
        self.evals += n
        if nontrivial and key is not None:
            self.keys.add(h64(key))

    def count(self, name, n=1):
        self.counters[name] = self.counters.get(name, 0) + n

    def observe(self, name, value):
        """Record a distinct observed value (class of outcome, branch, state...)."""
        s = self.observed.setdefault(name, set())
        if len(s) < 5000:
            s.add(value if isinstance(value, (str, int)) else repr(value))

    def maximum(self, name, value):
        try:
            v = float(value)
        except Exception:
            return
        if v != v:
            return
        if name not in self.maxima or v > self.maxima[name]:
            self.maxima[name] = v

    def sample(self, obj, keep=4):
        """Reservoir-sample actual cases for the evidence file."""
        self._nsample += 1
        if len(self.samples) < keep:
            self.samples.append(jsonable(obj))
        else:
            j = self._rng.randrange(self._nsample)
            if j < keep:
                self.samples[j] = jsonable(obj)

    # -- verdicts ---------------------------------------------------------
    def violation(self, mechanism: str, witness, **fields):
        """A refuting observation.  `mechanism` + fields are what known findings match on."""
        fields = dict(fields)
        fields["mechanism"] = mechanism
        sig = json.dumps(jsonable(fields), sort_keys=True)
        self.viol_count[sig] = self.viol_count.get(sig, 0) + 1
        lst = self.viol.setdefault(sig, [])
        if len(lst) < MAX_VIOL_PER_MECH:
            lst.append(jsonable(witness))

    def inconc(self, reason: str):
        if reason not in self.inconclusive:
            self.inconclusive.append(reason)

    def dump(self):
        return {
            "evals": self.evals,
            "keys": sorted(self.keys),
            "counters": self.counters,
            "observed": {k: sorted(v, key=str) for k, v in self.observed.items()},
            "samples": self.samples,
            "maxima": self.maxima,
            "viol": [
                {"fields": json.loads(sig), "count": self.viol_count[sig], "witnesses": w}
                for sig, w in self.viol.items()
            ],
            "inconclusive": self.inconclusive,
        }


# ---------------------------------------------------------------------------
# dependencies (icontract lives in the git-ignored /verif/.deps)
# ---------------------------------------------------------------------------
def ensure_deps(pkgs=("icontract",)):
    import fcntl

    os.makedirs(DEPS, exist_ok=True)
    lock = open(os.path.join(DEPS, ".lock"), "w")
    fcntl.flock(lock, fcntl.LOCK_EX)
    try:
        missing = [p for p in pkgs if not os.path.isdir(os.path.join(DEPS, p))]
        if missing:
            env = dict(os.environ, PIP_NO_INDEX="1")
            subprocess.run(
                [PY, "-m", "pip", "install", "-q", "--no-index", "--find-links", WHEELS,
                 "--target", DEPS, *missing],
                env=env, check=False, stdout=subprocess.DEVNULL, stderr=subprocess.DEVNULL,
            )
    finally:
        fcntl.flock(lock, fcntl.LOCK_UN)
        lock.close()
    return all(os.path.isdir(os.path.join(DEPS, p)) for p in pkgs)


# ---------------------------------------------------------------------------
# known findings
# ---------------------------------------------------------------------------
def load_known(pid):
    path = os.path.join(VERIF, "known_findings.json")
    if not os.path.exists(path):
        return []
    data = json.load(open(path))
    return [f for f in data.get("findings", []) if f["property"] == pid]


def matches(finding, fields) -> bool:
    for k, want in finding["match"].items():
        got = fields.get(k)
        if isinstance(want, list):
            if got not in want:
                return False
        elif got != want:
            return False
    return True


# ---------------------------------------------------------------------------
# shard execution
# ---------------------------------------------------------------------------
def _run_one(pid, spec, timeout):
    fd, specf = tempfile.mkstemp(prefix=f"verif-{pid}-", suffix=".spec.json")
    os.close(fd)
    outf = specf.replace(".spec.json", ".out.json")
    json.dump(spec, open(specf, "w"))
    env = dict(os.environ)
    env["PYTHONHASHSEED"] = str(spec.get("hashseed", 0))
    env["PYTHONPATH"] = os.pathsep.join([VERIF, DEPS])
    env["PINT_VERIF"] = "1"
    env["PINT_REPO"] = repo_path()
    env.setdefault("OMP_NUM_THREADS", "1")
    env.setdefault("OPENBLAS_NUM_THREADS", "1")
    env["PYTHONDONTWRITEBYTECODE"] = "1"
    t0 = time.time()
    try:
        p = subprocess.run(
            [PY, "-X", "faulthandler", "-m", "harness.shard", pid, specf, outf],
            cwd=VERIF, env=env, timeout=timeout, capture_output=True, text=True,
        )
        if p.returncode != 0 or not os.path.exists(outf):
            return {"died": f"shard {spec.get('name')} exit={p.returncode}: "
                            + (p.stderr or p.stdout)[-1500:], "spec": spec}
        res = json.load(open(outf))
        res["spec"] = spec
        res["wall"] = time.time() - t0
        return res
    except subprocess.TimeoutExpired:
        return {"died": f"shard {spec.get('name')} watchdog {timeout}s", "spec": spec}
    finally:
        for f in (specf, outf):
            try:
                os.unlink(f)
            except OSError:
                pass


def run_check(pid: str, tier: str, seed: int, replay: str | None = None) -> int:
    t0 = time.time()
    mod = importlib.import_module(f"checks.{pid.lower()}")
    needs = getattr(mod, "DEPS", ())
    if needs and not ensure_deps(tuple(needs)):
        print(f"INCONCLUSIVE property={pid} reason=cannot install {needs} from wheelhouse")
        return 2
    if replay:
        rp = json.load(open(replay))
        specs = [rp["spec"]]
        tier = rp["spec"].get("tier", tier)
    else:
        specs = mod.shards(tier, seed)
        for i, s in enumerate(specs):
            s.setdefault("name", f"s{i}")
            s.setdefault("seed", (seed * 1000003 + i * 7919 + 17) & 0x7FFFFFFF)
            s.setdefault("hashseed", (seed * 31 + i) % 4294967295)
            s["tier"] = tier
    timeout = getattr(mod, "SHARD_TIMEOUT", {"quick": 900, "thorough": 5400})[tier]
    with ThreadPoolExecutor(max_workers=NCPU) as ex:
        results = list(ex.map(lambda s: _run_one(pid, s, timeout), specs))

    keys: set[int] = set()
    evals = 0
    counters: dict[str, int] = {}
    observed: dict[str, set] = {}
    maxima: dict[str, float] = {}
    samples = []
    inconclusive = []
    viols = []  # (fields, count, witnesses, spec)
    for r in results:
        if "died" in r:
            inconclusive.append(r["died"])
            continue
        evals += r["evals"]
        keys.update(r["keys"])
        for k, v in r["counters"].items():
            counters[k] = counters.get(k, 0) + v
        for k, v in r["observed"].items():
            observed.setdefault(k, set()).update(v)
        for k, v in r["maxima"].items():
            maxima[k] = max(maxima.get(k, v), v)
        samples.extend(r["samples"][:2])
        inconclusive.extend(r["inconclusive"])
        for v in r["viol"]:
            viols.append((v["fields"], v["count"], v["witnesses"], r["spec"]))

    # optional cross-shard monitor: sees the merged observations (e.g. the same question
    # answered under different PYTHONHASHSEEDs / histories must have one answer)
    fin = getattr(mod, "finalize", None)
    if fin and not replay:
        for mech, wit, fields in fin(observed, counters) or []:
            fields = dict(fields, mechanism=mech)
            viols.append((jsonable(fields), 1, [jsonable(wit)], {"name": "finalize", "tier": tier}))
    req = getattr(mod, "required", lambda tier: {})(tier)
    if not replay:
        for name, minimum in req.items():
            got = counters.get(name, len(observed.get(name, ())))
            if got < minimum:
                inconclusive.append(f"deciding counter {name}={got} < {minimum}")

    known = load_known(pid)
    known_seen: dict[str, int] = {}
    unlisted = []
    for fields, count, wit, spec in viols:
        hit = next((f for f in known if matches(f, fields)), None)
        if hit:
            known_seen[hit["key"]] = known_seen.get(hit["key"], 0) + count
        else:
            unlisted.append((fields, count, wit, spec))
    for f in known:
        if f["key"] in known_seen:
            print(f"KNOWN-FINDING: property={pid} {f['key']}: {f['what_fails']} "
                  f"(re-observed {known_seen[f['key']]}x)")
        elif not replay:
            # listed in known_findings.json but its input class did not come up in this run
            print(f"KNOWN-FINDING: property={pid} {f['key']}: {f['what_fails']} "
                  f"(listed; not re-observed in this run)")

    replays = []
    # runs against another copy of the library (PINT_REPO: seeded changes, snapshots) keep their replay files
    # apart, so that they never overwrite the witnesses of a run against /repo (files are named by class)
    rdir = os.path.join(VERIF, "replays")
    other = os.environ.get("PINT_REPO")
    if other and os.path.realpath(other) != os.path.realpath("/repo"):
        rdir = os.path.join(rdir, "other-tree")
    os.makedirs(rdir, exist_ok=True)
    seen_sig = set()
    for fields, count, wit, spec in unlisted:
        sig = json.dumps(fields, sort_keys=True)
        if sig in seen_sig:
            continue
        seen_sig.add(sig)
        name = f"{pid}-{h64(sig):016x}.json"
        path = os.path.join(rdir, name)
        json.dump({"property": pid, "fields": fields, "count": count, "witnesses": wit,
                   "spec": spec}, open(path, "w"), indent=1, default=repr)
        replays.append(path)
        print(f"VIOLATION property={pid} replay={path}")
        print(f"  fields={json.dumps(fields, sort_keys=True)} count={count}")
        print(f"  witness={json.dumps(wit[0], default=repr)[:600]}")

    wall = time.time() - t0
    exhaustive = bool(getattr(mod, "exhaustive", lambda tier: False)(tier))
    cov = {
        "evaluations": evals,
        "distinct_nontrivial": len(keys),
        "rule": mod.RULE,
        "samples": samples[:12],
        "exhaustive": exhaustive,
        "shards": len(specs),
        "hashseeds": sorted({s.get("hashseed", 0) for s in specs}),
        "counters": dict(sorted(counters.items())),
        "observed": {k: (sorted(v, key=str) if len(v) <= 40 else
                         {"distinct": len(v), "some": sorted(v, key=str)[:40]})
                     for k, v in sorted(observed.items())},
        "maxima": maxima,
        "known_findings_reobserved": known_seen,
        "inconclusive": inconclusive,
        "repo": repo_path(),
    }
    if not replay and repo_path() == "/repo" and not os.environ.get("VERIF_NO_EVIDENCE"):
        ev = {
            "property_id": pid, "tier": tier, "seed": seed,
            "level": getattr(mod, "LEVEL", "exploration"),
            "coverage": cov,
            "assumptions": list(getattr(mod, "ASSUMPTIONS", [])),
            "wall_s": round(wall, 2),
            "violations": len(replays),
        }
        os.makedirs(os.path.join(VERIF, "evidence"), exist_ok=True)
        tmp = os.path.join(VERIF, "evidence", f".{pid}.json.tmp")
        json.dump(ev, open(tmp, "w"), indent=1, default=repr)
        os.replace(tmp, os.path.join(VERIF, "evidence", f"{pid}.json"))
    print(f"{pid} tier={tier} seed={seed} shards={len(specs)} evaluations={evals} "
          f"distinct_nontrivial={len(keys)} violations={len(replays)} "
          f"known={sum(known_seen.values())} wall={wall:.1f}s")
    if replays:
        return 1
    if inconclusive:
        for r in inconclusive[:5]:
            print(f"INCONCLUSIVE property={pid} reason={r if len(r) <= 900 else r[:200] + ' ... ' + r[-700:]}")
        return 2
    if evals == 0 or len(keys) < 2:
        print(f"INCONCLUSIVE property={pid} reason=observed nothing")
        return 2
    return 0


def shard_main(argv):
    pid, specf, outf = argv
    spec = json.load(open(specf))
    rec = Rec(spec)
    mod = importlib.import_module(f"checks.{pid.lower()}")
    try:
        mod.run_shard(spec, rec)
    except BaseException:
        rec.inconc("shard crashed: " + traceback.format_exc()[-1200:])
    json.dump(rec.dump(), open(outf, "w"), default=repr)
