"""C19 helpers: an independent writer/reader of textual uncertainty notations, a reader of
rendered measurements, and a small forward-mode differentiation class for first-order
error propagation.  Shares no code with pint or with the `uncertainties` package.

Meaning of the notations (the oracle):
  (N +/- S)       nominal N, standard deviation S              (also N +/- S, and +/- written as the sign U+00B1)
  (N +/- S)eK     both scaled by 10**K
  N(S)            "concise" notation of the GUM 7.2.2 / CODATA / siunitx: the digits S count in
                  units of the LAST written digit of N:   8.00(4) = 8.00 +/- 0.04,
                  123(45) = 123 +/- 45, 0.200(10) = 0.200 +/- 0.010.  If S itself contains a
                  decimal point it is taken literally: 8.0(1.4) = 8.0 +/- 1.4.
  N(S)eK          both scaled by 10**K
"""
from __future__ import annotations

import math
import re
from fractions import Fraction as F


# --------------------------------------------------------------------------------------
# literals
# --------------------------------------------------------------------------------------
def lit_value(lit: str) -> F:
    """Exact value of a plain decimal literal such as '12.50', '.5', '5.', '-3'."""
    s = lit.strip()
    sign = 1
    if s[:1] in "+-":
        sign = -1 if s[0] == "-" else 1
        s = s[1:]
    if "." in s:
        a, b = s.split(".")
    else:
        a, b = s, ""
    digits = (a + b) or "0"
    return sign * F(int(digits), 10 ** len(b))


def lit_decimals(lit: str) -> int:
    return len(lit.split(".")[1]) if "." in lit else 0


def rand_lit(rng, allow_zero=False, maxint=4, maxdec=4, mindec=0) -> str:
    k = rng.randint(1, maxint)
    if rng.random() < 0.25:
        ip = "0"
    else:
        ip = str(rng.randint(1, 9)) + "".join(str(rng.randint(0, 9)) for _ in range(k - 1))
    d = rng.randint(mindec, maxdec)
    fp = "".join(str(rng.randint(0, 9)) for _ in range(d))
    lit = ip + ("." + fp if d else "")
    if not allow_zero and lit_value(lit) == 0:
        lit = (ip[:-1] + "7") if not d else ip + "." + fp[:-1] + "3"
    return lit


EXP_FORMS = ("none", "e", "e+", "e-", "e0", "e+0", "e-0", "E+", "E-")


def rand_exp(rng, form):
    """-> (text, integer exponent)"""
    if form == "none":
        return "", 0
    k = rng.choice((0, 1, 2, 3, 5, 7, 9, 10, 12, 19, 23))
    if form in ("e0", "e+0", "e-0"):
        k = k % 10
    txt = {"e": f"e{k}", "e+": f"e+{k}", "e-": f"e-{k}", "e0": f"e0{k}", "e+0": f"e+0{k}",
           "e-0": f"e-0{k}", "E+": f"E+{k}", "E-": f"E-{k}"}[form]
    return txt, (-k if "-" in form else k)


#: unit spellings used behind a notation: (text, {canonical: exponent}); none starts with e/E
#: so that "...)e1 m" can never be read as part of the unit
UNITS_SPACED = [
    ("m", {"meter": 1}), ("meter", {"meter": 1}), ("kg", {"kilogram": 1}), ("s", {"second": 1}),
    ("m/s", {"meter": 1, "second": -1}), ("m / s", {"meter": 1, "second": -1}),
    ("m**2", {"meter": 2}), ("kg*m/s**2", {"kilogram": 1, "meter": 1, "second": -2}),
    ("mol", {"mole": 1}), ("V", {"volt": 1}), ("km", {"kilometer": 1}),
    ("dimensionless", {}), ("1/s", {"second": -1}), ("µm", {"micrometer": 1}),
]
UNITS_ATTACHED = [("m", {"meter": 1}), ("kg", {"kilogram": 1}), ("s", {"second": 1}),
                  ("km", {"kilometer": 1}), ("V", {"volt": 1})]


class Note:
    __slots__ = ("text", "n", "s", "units", "fields", "body", "utext")

    def __init__(self, text, n, s, units, fields, body, utext):
        self.text, self.n, self.s, self.units, self.fields = text, n, s, units, fields
        self.body, self.utext = body, utext


def gen_note(rng, form=None, exp=None, sign=None, unitpos=None) -> Note:
    """One textual measurement with its meaning (n, s exact Fractions, units dict)."""
    form = form or rng.choice(("paren-pm", "paren-pm", "bare-pm", "shorthand", "shorthand",
                               "shorthand-literal"))
    N = rand_lit(rng, allow_zero=rng.random() < 0.04)
    digits_rel = "n/a"
    if form in ("paren-pm", "bare-pm"):
        S = rand_lit(rng, allow_zero=rng.random() < 0.05)
    elif form == "shorthand":
        if rng.random() < 0.45:
            # the case the repository's own tests cover: as many digits as N has decimals
            d = rng.randint(1, 3)
            N = rand_lit(rng, maxdec=d, mindec=d)
            S = str(rng.randint(1, 9)) + "".join(str(rng.randint(0, 9)) for _ in range(d - 1))
        else:
            S = str(rng.randint(0 if rng.random() < 0.05 else 1, 9))
            S += "".join(str(rng.randint(0, 9)) for _ in range(rng.choice((0, 0, 1, 2))))
        digits_rel = "eq" if lit_decimals(N) == len(S) else (
            "fewer-decimals" if lit_decimals(N) < len(S) else "more-decimals")
    else:
        S = rand_lit(rng, maxint=1, maxdec=2, mindec=1)
        digits_rel = "literal"
    if form == "bare-pm":
        if exp is None:
            exp = "in-literal" if rng.random() < 0.3 else "none"
        elif exp not in ("none", "in-literal"):
            exp = "none"
    elif form == "paren-pm" and exp is None and rng.random() < 0.08:
        exp = "in-literal"
    elif exp == "in-literal" and form.startswith("shorthand"):
        exp = "none"
    exp = exp or rng.choice(EXP_FORMS)
    if exp == "in-literal":
        k = rng.choice((1, 2, 3, 6, 12))
        sg = rng.choice(("", "-", "+"))
        etxt, E = "", 0
        Ntxt, Stxt = f"{N}e{sg}{k}", f"{S}e{sg}{k}"
        scale = F(10) ** (-k if sg == "-" else k)
    else:
        etxt, E = rand_exp(rng, exp)
        Ntxt, Stxt = N, S
        scale = F(10) ** E
    sign = sign or rng.choice(("none", "none", "none", "minus", "minus", "minus-outside", "plus"))
    if sign == "minus-outside" and form != "paren-pm":
        sign = "minus"
    pm = rng.choice(("+/-", "+/-", "±"))
    sp = rng.choice((" ", " ", ""))
    pad = rng.choice(("", "", " "))
    sgn = {"none": "", "minus": "-", "plus": "+", "minus-outside": ""}[sign]
    if form == "paren-pm":
        body = f"({pad}{sgn}{Ntxt}{sp}{pm}{sp}{Stxt}{pad}){etxt}"
        if sign == "minus-outside":
            body = "-" + body
    elif form == "bare-pm":
        body = f"{sgn}{Ntxt}{sp}{pm}{sp}{Stxt}"
    else:
        body = f"{sgn}{Ntxt}({Stxt}){etxt}"
    unitpos = unitpos or rng.choice(("spaced", "spaced", "spaced", "spaced", "attached", "star",
                                     "none"))
    if unitpos == "attached" and (etxt or exp == "in-literal" or form == "bare-pm"):
        unitpos = "spaced"
    if unitpos == "spaced":
        ut, ud = rng.choice(UNITS_SPACED)
        text = body + " " + ut
    elif unitpos == "attached":
        ut, ud = rng.choice(UNITS_ATTACHED)
        text = body + ut
    elif unitpos == "star":
        ut, ud = rng.choice(UNITS_SPACED)
        text = body + rng.choice((" * ", "*")) + ut
    else:
        ut, ud = "", {}
        text = body
    n = lit_value(N) * scale * (-1 if sign.startswith("minus") else 1)
    if form == "shorthand":
        s = F(int(S), 10 ** lit_decimals(N)) * scale
    else:
        s = lit_value(S) * scale
    fields = {"form": form, "exp": exp, "sign": sign, "unitpos": unitpos,
              "pm": "unicode" if pm == "±" else "ascii", "digits": digits_rel}
    if form in ("shorthand", "shorthand-literal"):
        fields["pm"] = "n/a"
    return Note(text, n, s, ud, fields, body, ut)


# --------------------------------------------------------------------------------------
# reader of rendered measurements
# --------------------------------------------------------------------------------------
_SUP = str.maketrans("⁰¹²³⁴⁵⁶⁷⁸⁹⁻⁺", "0123456789-+")
_NUM = r"[-+]?(?:\d+\.?\d*|\.\d+)"
_RE_PAREN = re.compile(rf"^\(({_NUM})\+/-({_NUM})\)(?:[eE]([-+]?\d+))?(%?)$")
_RE_SHORT = re.compile(rf"^({_NUM})\((\d+\.?\d*|\.\d+)\)(?:[eE]([-+]?\d+))?(%?)$")
_RE_BARE = re.compile(rf"^({_NUM})\+/-({_NUM})(?:[eE]([-+]?\d+))?(%?)$")


def normalise_rendered(num: str, family: str) -> str:
    """Bring the numeric part of a rendered measurement to plain ASCII notation."""
    s = num
    if family == "H":
        s = s.replace("&plusmn;", "+/-")
        # the markup must END the number: '×10<sup>10</sup>0' is 10^10 followed by a stray digit, not 10^100
        s = re.sub(r"×10<sup>(-?\d+)</sup>(?![\d.])", r"e\1", s)
    elif family == "P":
        s = s.replace("±", "+/-")
        s = re.sub(r"×10([⁰¹²³⁴⁵⁶⁷⁸⁹⁻⁺]+)(?![\d.])", lambda m: "e" + m.group(1).translate(_SUP), s)
    elif family == "L":
        s = s.replace(r"\left", "").replace(r"\right", "").replace(r"\pm", "+/-")
        s = re.sub(r"\\times 10\^\{(-?\d+)\}(?![\d.])", r"e\1", s)
        s = s.replace(r"\%", "%")
    elif family == "Lx":
        s = s.replace("+-", "+/-")
    return re.sub(r"\s+", "", s)


def _quantum(lit: str) -> F:
    """Value of the last significant written digit; trailing zeros of an integer literal are
    place holders, not significant ('10000' may be 9694 rounded to one digit)."""
    if "." in lit:
        return F(1, 10 ** lit_decimals(lit))
    digits = lit.lstrip("+-")
    tz = len(digits) - len(digits.rstrip("0"))
    if tz == len(digits):       # "0"
        return F(1)
    return F(10) ** tz


def read_number_part(txt: str):
    """txt: normalised numeric part.  -> dict(form, n, s, qn, qs, percent, exp) or None.
    n, s exact Fractions as written; qn/qs the value of one unit of the last written digit."""
    cands = [txt]
    if txt.startswith("(") and txt.endswith(")"):
        cands.append(txt[1:-1])
    for t in cands:
        for form, rx in (("paren-pm", _RE_PAREN), ("shorthand", _RE_SHORT), ("bare-pm", _RE_BARE)):
            m = rx.match(t)
            if not m:
                continue
            N, S, E, pct = m.groups()
            scale = F(10) ** int(E or 0)
            if pct:
                scale /= 100
            n = lit_value(N) * scale
            qn = _quantum(N) * scale
            if form == "shorthand" and "." not in S:
                s = F(int(S), 10 ** lit_decimals(N)) * scale
                qs = qn
            else:
                s = lit_value(S) * scale
                qs = _quantum(S) * scale
            return {"form": form, "n": n, "s": s, "qn": qn, "qs": qs, "percent": bool(pct),
                    "exp": E is not None, "N": N, "S": S, "wrapped": t is not txt}
    return None


# --------------------------------------------------------------------------------------
# first-order propagation (forward mode): value, d value / d leaf for every uncertain leaf
# --------------------------------------------------------------------------------------
class D:
    """v: value; g[leaf] = partial derivative; ga[leaf] >= sum of |contributions| (tolerance
    scale under cancellation); vg >= sum of |terms| of the value (same purpose)."""
    __slots__ = ("v", "g", "ga", "vg")

    def __init__(self, v, g=None, ga=None, vg=None):
        self.v = v
        self.g = g or {}
        self.ga = ga if ga is not None else {k: abs(x) for k, x in self.g.items()}
        self.vg = abs(v) if vg is None else vg

    @staticmethod
    def leaf(v, key):
        return D(v, {key: 1.0})

    @staticmethod
    def _comb(a, ca, b, cb):
        g, ga = {}, {}
        for k, x in a.g.items():
            g[k] = ca * x
            ga[k] = abs(ca) * a.ga[k]
        for k, x in b.g.items():
            g[k] = g.get(k, 0.0) + cb * x
            ga[k] = ga.get(k, 0.0) + abs(cb) * b.ga[k]
        return g, ga

    def add(a, b, sign=1.0, rb=1.0):
        """a + sign * rb * b   (rb: unit conversion factor of b into a's units)"""
        g, ga = D._comb(a, 1.0, b, sign * rb)
        return D(a.v + sign * rb * b.v, g, ga, a.vg + abs(rb) * b.vg)

    def mul(a, b):
        g, ga = D._comb(a, b.v, b, a.v)
        return D(a.v * b.v, g, ga, a.vg * b.vg)

    def div(a, b):
        g, ga = D._comb(a, 1.0 / b.v, b, -a.v / (b.v * b.v))
        return D(a.v / b.v, g, ga, a.vg * b.vg / (b.v * b.v))

    def scale(a, k):
        g, ga = D._comb(a, k, D(0.0), 0.0)
        return D(a.v * k, g, ga, a.vg * abs(k))

    def neg(a):
        return a.scale(-1.0)

    def abs_(a):
        return a.scale(-1.0 if a.v < 0 else 1.0)

    def pow(a, b):
        v = a.v ** b.v
        if isinstance(v, complex):
            raise ValueError("complex power")
        if b.v == 0:
            da = 0.0
        else:
            da = b.v * a.v ** (b.v - 1)
        if b.g:
            db = v * math.log(a.v)
        else:
            db = 0.0
        g, ga = D._comb(a, da, b, db)
        rel = (a.vg / abs(a.v)) if a.v else 1.0
        return D(v, g, ga, abs(v) * max(1.0, rel) ** max(1.0, abs(b.v)) + (0.0 if a.v else a.vg))

    def sigma(self, sig):
        return math.sqrt(sum((x * sig[k]) ** 2 for k, x in self.g.items()))

    def floor(self, sig):
        return sum(x * sig[k] for k, x in self.ga.items())
