"""Expression-language side of the C07 check (shares no code with pint).

* trees over the token alphabet {2, 3, 0.5, m, s, km, percent} and + - * / // ** unary-minus
  (unary plus only in random trees);
* exhaustive enumerators (full alphabet; operator skeletons) and a typed random generator;
* renderers: every string they emit denotes the tree under Python's precedence with
  juxtaposition == '*' (this is checked, not assumed: `ref_parse` below is an independent
  recursive-descent reader of that grammar and every rendering is read back and compared
  with the tree; explicit-operator renderings are additionally read by Python's own `ast`);
* the reference reader also serves as the judge of which truncated strings are malformed and
  why (unbalanced parenthesis / operator without operand);
* generators of hostile strings for the no-execution clause.

Lexical rules the renderers obey (DESIGN C07 "Soundness"): never NUMBER(NUMBER), never a
name starting with e/E after a number, never '%', never a word form as a name, NAME NAME and
NAME NUMBER and NUMBER NUMBER adjacency always separated by white space, the right operand of
a juxtaposition never starts with a sign.
"""
from __future__ import annotations

import ast
import itertools
import re

NUMS = ("2", "3", "0.5")
NAMES = ("m", "s", "km", "percent")
LEAVES = tuple(("n", x) for x in NUMS) + tuple(("u", x) for x in NAMES)
NUM_LEAVES = LEAVES[:3]
BINOPS = ("+", "-", "*", "/", "//", "**")
CANON = {"m": "meter", "s": "second", "km": "kilometer", "percent": "percent",
         "meter": "meter", "second": "second", "kilometer": "kilometer"}

ADD, MUL, UNARY, POW, ATOM = 1, 2, 3, 4, 5
PREC = {"+": ADD, "-": ADD, "*": MUL, "/": MUL, "//": MUL, "**": POW, "neg": UNARY, "pos": UNARY}

_SUP = str.maketrans("0123456789-", "⁰¹²³⁴⁵⁶⁷⁸⁹⁻")
_UNSUP = str.maketrans("⁰¹²³⁴⁵⁶⁷⁸⁹⁻", "0123456789-")


# --------------------------------------------------------------------------------------
# trees
# --------------------------------------------------------------------------------------
def nleaves(t):
    if t[0] in ("n", "u", "pm"):
        return 1
    if t[0] in ("neg", "pos"):
        return nleaves(t[1])
    return nleaves(t[1]) + nleaves(t[2])


def ops_of(t, acc=None):
    acc = set() if acc is None else acc
    if t[0] in ("n", "u", "pm"):
        return acc
    acc.add(t[0])
    for c in t[1:]:
        ops_of(c, acc)
    return acc


def adjacencies(t, acc=None):
    """(parent operator, side, child operator) triples: what precedence rules get exercised."""
    acc = set() if acc is None else acc
    if t[0] in ("n", "u", "pm"):
        return acc
    for side, c in zip("LR", t[1:]):
        if c[0] not in ("n", "u", "pm"):
            acc.add(f"{t[0]}>{side}>{c[0]}")
        adjacencies(c, acc)
    return acc


def pow_depth(t):
    if t[0] in ("n", "u", "pm"):
        return 0
    if t[0] in ("neg", "pos"):
        return pow_depth(t[1])
    d = max(pow_depth(t[1]), pow_depth(t[2]))
    return d + 1 if t[0] == "**" else d


_FULL = {}


def trees_full(n):
    """All trees with exactly n leaves over LEAVES x BINOPS (no unary). n<=3 cached."""
    if n in _FULL:
        return _FULL[n]
    if n == 1:
        out = list(LEAVES)
    else:
        out = []
        for k in range(1, n):
            for left in trees_full(k):
                for right in trees_full(n - k):
                    for op in BINOPS:
                        out.append((op, left, right))
    _FULL[n] = out
    return out


def iter_trees_full(n):
    """Generator version (does not cache the top level): used for n = 4."""
    if n <= 3:
        yield from trees_full(n)
        return
    for k in range(1, n):
        for left in trees_full(k):
            for right in trees_full(n - k):
                for op in BINOPS:
                    yield (op, left, right)


def count_full(n):
    c = {1: len(LEAVES)}
    for m in range(2, n + 1):
        c[m] = sum(c[k] * c[m - k] for k in range(1, m)) * len(BINOPS)
    return c[n]


def node_paths(t, prefix=()):
    yield prefix
    if t[0] in ("neg", "pos"):
        yield from node_paths(t[1], prefix + (1,))
    elif t[0] not in ("n", "u", "pm"):
        yield from node_paths(t[1], prefix + (1,))
        yield from node_paths(t[2], prefix + (2,))


def wrap_at(t, path, what="neg"):
    if not path:
        return (what, t)
    lst = list(t)
    lst[path[0]] = wrap_at(t[path[0]], path[1:], what)
    return tuple(lst)


def with_unary(t, k):
    """All trees obtained by negating exactly k distinct nodes of t."""
    paths = list(node_paths(t))
    for combo in itertools.combinations(paths, k):
        out = t
        # deepest first so that shallower paths stay valid
        for p in sorted(combo, key=len, reverse=True):
            out = wrap_at(out, p)
        yield out


def skeletons(n):
    """All operator skeletons with n leaves: trees whose leaves are the placeholder None."""
    if n == 1:
        yield None
        return
    for k in range(1, n):
        for left in skeletons(k):
            for right in skeletons(n - k):
                for op in BINOPS:
                    yield (op, left, right)


def count_skeletons(n):
    c = {1: 1}
    for m in range(2, n + 1):
        c[m] = sum(c[k] * c[m - k] for k in range(1, m)) * len(BINOPS)
    return c[n]


def fill(skel, leaves):
    """Replace the placeholders of a skeleton (left to right) by the given leaves."""
    it = iter(leaves)

    def go(s):
        if s is None:
            return next(it)
        if s[0] in ("neg", "pos"):
            return (s[0], go(s[1]))
        return (s[0], go(s[1]), go(s[2]))

    return go(skel)


def skel_paths(s, prefix=()):
    yield prefix
    if s is not None:
        if s[0] in ("neg", "pos"):
            yield from skel_paths(s[1], prefix + (1,))
        else:
            yield from skel_paths(s[1], prefix + (1,))
            yield from skel_paths(s[2], prefix + (2,))


def skel_wrap(s, path, what="neg"):
    if not path:
        return (what, s)
    lst = list(s)
    lst[path[0]] = skel_wrap(s[path[0]], path[1:], what)
    return tuple(lst)


# --------------------------------------------------------------------------------------
# typed random trees (biased towards dimensionally well-formed expressions)
# --------------------------------------------------------------------------------------
def _leaf_for(rng, sig):
    if sig == (0, 0):
        r = rng.random()
        return ("u", "percent") if r < 0.08 else ("n", rng.choice(NUMS))
    if sig == (1, 0):
        return ("u", rng.choice(("m", "km")))
    if sig == (0, 1):
        return ("u", "s")
    return rng.choice(LEAVES)          # not expressible by one leaf: ill-typed on purpose


def random_tree(rng, size, sig=None, powd=0, unary_p=0.12, illtyped_p=0.04):
    """Random tree with `size` leaves whose dimension signature (length, time) is `sig`."""
    if sig is None:
        sig = rng.choice(((0, 0), (1, 0), (0, 1), (1, -1), (2, 0), (1, -2), (0, -1), (2, -1)))
    if rng.random() < illtyped_p:
        sig = (rng.randint(-1, 2), rng.randint(-2, 1))
    r = rng.random()
    if r < unary_p:
        return ("neg", random_tree(rng, size, sig, powd, unary_p * 0.5, illtyped_p))
    if r < unary_p * 1.2:
        return ("pos", random_tree(rng, size, sig, powd, unary_p * 0.5, illtyped_p))
    if size == 1:
        return _leaf_for(rng, sig)
    choices = ["+", "-", "*", "*", "/", "/"]
    if sig == (0, 0):
        choices += ["//", "//"]
    if powd < 2:
        choices += ["**", "**"]
    op = rng.choice(choices)
    k = rng.randint(1, size - 1)
    if op in "+-":
        return (op, random_tree(rng, k, sig, powd, unary_p, illtyped_p),
                random_tree(rng, size - k, sig, powd, unary_p, illtyped_p))
    if op == "//":
        s = rng.choice(((0, 0), (1, 0), (0, 1), (1, -1)))
        return (op, random_tree(rng, k, s, powd, unary_p, illtyped_p),
                random_tree(rng, size - k, s, powd, unary_p, illtyped_p))
    if op == "*":
        s1 = (rng.randint(-1, 1), rng.randint(-1, 1))
        s2 = (sig[0] - s1[0], sig[1] - s1[1])
        return (op, random_tree(rng, k, s1, powd, unary_p, illtyped_p),
                random_tree(rng, size - k, s2, powd, unary_p, illtyped_p))
    if op == "/":
        s2 = (rng.randint(-1, 1), rng.randint(-1, 1))
        s1 = (sig[0] + s2[0], sig[1] + s2[1])
        return (op, random_tree(rng, k, s1, powd, unary_p, illtyped_p),
                random_tree(rng, size - k, s2, powd, unary_p, illtyped_p))
    # power: small literal exponents (possibly negated), or a dimensionless numeric subtree
    cands = [e for e in (2, 3, -2, -3) if sig[0] % e == 0 and sig[1] % e == 0]
    if sig == (0, 0) and rng.random() < 0.5 and size >= 2:
        ek = rng.randint(1, min(2, size - 1))
        exp = random_tree(rng, ek, (0, 0), powd + 1, unary_p, 0.0)
        return (op, random_tree(rng, size - ek, (0, 0), powd + 1, unary_p, illtyped_p), exp)
    if not cands:
        e = rng.choice((2, 3, -2))
        bsig = sig
    else:
        e = rng.choice(cands)
        bsig = (sig[0] // e, sig[1] // e)
    if sig == (0, 0) and rng.random() < 0.3:
        exp = ("n", "0.5")
    else:
        exp = ("n", str(abs(e)))
        if e < 0:
            exp = ("neg", exp)
    return (op, random_tree(rng, max(1, size - 1), bsig, powd + 1, unary_p, illtyped_p), exp)


# --------------------------------------------------------------------------------------
# rendering
# --------------------------------------------------------------------------------------
class Piece:
    __slots__ = ("s", "prec", "first", "last", "numgroup", "barename")

    def __init__(self, s, prec, first, last, numgroup=False, barename=False):
        self.s, self.prec, self.first, self.last = s, prec, first, last
        self.numgroup, self.barename = numgroup, barename


class Style:
    """Spelling choices.  Every attribute is either a fixed value or 'rand'."""

    def __init__(self, name, mul="star", pw="**", parens="min", space="one", tightgroup=False,
                 lead="", trail="", rng=None):
        self.name, self.mul, self.pw, self.parens, self.space = name, mul, pw, parens, space
        self.tightgroup, self.lead, self.trail, self.rng = tightgroup, lead, trail, rng
        self.used = set()

    # -- choices ------------------------------------------------------------------
    def redundant(self):
        if self.parens == "full":
            return True
        if self.parens == "rand":
            return self.rng.random() < 0.25
        return False

    def sp(self):
        if self.space == "one":
            return " "
        if self.space == "none":
            return ""
        return self.rng.choice(("", " ", " ", "  ", "\t"))

    def gap(self):
        """White space that separates two juxtaposed operands (never empty)."""
        if self.space == "rand":
            return self.rng.choice((" ", " ", "  ", "\t", " \t"))
        return " "

    def mulform(self):
        if self.mul == "rand":
            return self.rng.choice(("star", "juxt", "juxt", "tight"))
        return self.mul

    def powform(self):
        if self.pw == "rand":
            return self.rng.choice(("**", "^", "sup"))
        return self.pw


def _wrap(p, st):
    pad = st.sp() if st.space == "rand" else ""
    inner_is_num = p.prec == ATOM and p.first == "num" and p.last == "num" and not p.numgroup
    return Piece("(" + pad + p.s + pad + ")", ATOM, "paren", "paren", numgroup=inner_is_num)


def _need(p, minprec, st, redundant_ok=True):
    if p.prec < minprec:
        return _wrap(p, st)
    if redundant_ok and st.redundant():
        st.used.add("redundant-parens")
        return _wrap(p, st)
    return p


def _tight_ok(left, right, st):
    """May `left` and `right` be juxtaposed with no white space in between?"""
    lf, rf = left.last, right.first
    if rf == "paren":
        if not st.tightgroup:
            return False
        if lf == "num" and right.numgroup:
            return False                       # NUMBER(NUMBER) is uncertainty notation
        if lf == "num" and re.match(r"\(\s*[0-9.]+\s*\)", right.s):
            return False
        return True
    if lf == "paren":
        return rf in ("num", "name")
    if lf == "num":
        return rf == "name"                    # "2m"; names never start with e/E here
    if lf == "sup":
        return rf == "name"
    return False


def render_piece(t, st):
    k = t[0]
    if k == "n":
        return Piece(t[1], ATOM, "num", "num")
    if k == "u":
        return Piece(t[1], ATOM, "name", "name", barename=True)
    if k in ("neg", "pos"):
        c = _need(render_piece(t[1], st), UNARY, st)
        sp = st.sp() if st.space == "rand" else ""
        return Piece(("-" if k == "neg" else "+") + sp + c.s, UNARY, "sign", c.last)
    left, right = t[1], t[2]
    if k == "**":
        form = st.powform()
        if form == "sup" and left[0] == "u":
            e = None
            if right[0] == "n" and right[1].isdigit():
                e = right[1]
            elif right[0] == "neg" and right[1][0] == "n" and right[1][1].isdigit():
                e = "-" + right[1][1]
            if e is not None:
                st.used.add("superscript")
                return Piece(left[1] + e.translate(_SUP), POW, "name", "sup")
        if form == "sup" and left[0] != "u":
            # superscript directly after a parenthesised group: "(m/s)²"   (main-agent addition after
            # seeded change C07-2; the independent reader accepts a superscript after any atom)
            e = None
            if right[0] == "n" and right[1].isdigit():
                e = right[1]
            elif right[0] == "neg" and right[1][0] == "n" and right[1][1].isdigit():
                e = "-" + right[1][1]
            if e is not None and left[0] != "n":
                b = _wrap(render_piece(left, st), st)
                st.used.add("superscript-after-group")
                return Piece(b.s + e.translate(_SUP), POW, "paren", "sup")
        if form == "sup":
            form = "^" if st.pw != "rand" else st.rng.choice(("**", "^"))
        b = _need(render_piece(left, st), ATOM, st)
        e = _need(render_piece(right, st), UNARY, st)
        if form == "^":
            st.used.add("caret")
        s1 = st.sp()
        s2 = st.sp()
        return Piece(b.s + s1 + form + s2 + e.s, POW, b.first, e.last)
    if k == "*":
        form = st.mulform()
        if form != "star":
            lp = _need(render_piece(left, st), MUL, st)
            rp = _need(render_piece(right, st), POW, st)
            if form == "tight" and _tight_ok(lp, rp, st):
                st.used.add("juxt-tight-group" if rp.first == "paren" else "juxt-tight")
                sep = ""
            else:
                st.used.add("juxt-space")
                sep = st.gap()
            return Piece(lp.s + sep + rp.s, MUL, lp.first, rp.last)
    if k in ("*", "/", "//"):
        lp = _need(render_piece(left, st), MUL, st)
        rp = _need(render_piece(right, st), UNARY, st)
        return Piece(lp.s + st.sp() + k + st.sp() + rp.s, MUL, lp.first, rp.last)
    lp = _need(render_piece(left, st), ADD, st)
    rp = _need(render_piece(right, st), MUL, st)
    return Piece(lp.s + st.sp() + k + st.sp() + rp.s, ADD, lp.first, rp.last)


def render(t, st):
    st.used = set()
    p = render_piece(t, st)
    if st.parens == "full" or (st.parens == "rand" and st.rng.random() < 0.15):
        p = _wrap(p, st)
    return st.lead + p.s + st.trail, frozenset(st.used)


def fixed_styles():
    return [
        Style("spaced", mul="star", pw="**", parens="min", space="one"),
        Style("dense", mul="star", pw="**", parens="min", space="none"),
        Style("caret-full", mul="star", pw="^", parens="full", space="none"),
        Style("juxt", mul="juxt", pw="**", parens="min", space="one"),
        Style("juxt-sup", mul="tight", pw="sup", parens="min", space="none"),
        Style("tight-group", mul="tight", pw="**", parens="min", space="none", tightgroup=True),
    ]


def random_style(rng):
    return Style("random", mul=rng.choice(("rand", "rand", "star", "juxt", "tight")),
                 pw=rng.choice(("rand", "rand", "**", "^", "sup")),
                 parens=rng.choice(("min", "rand", "rand")),
                 space=rng.choice(("rand", "rand", "one", "none")),
                 tightgroup=rng.random() < 0.3,
                 lead=rng.choice(("", "", "", " ", "  ", "\t")),
                 trail=rng.choice(("", "", "", " ", "  ")), rng=rng)


# --------------------------------------------------------------------------------------
# independent reader of the grammar (Python precedence, juxtaposition == '*')
# --------------------------------------------------------------------------------------
_TOK = re.compile(r"""
    (?P<ws>[ \t]+)
  | (?P<num>\d[\d_]*\.\d*(?:[eE][+-]?\d+)?|\.\d+(?:[eE][+-]?\d+)?|\d[\d_]*(?:[eE][+-]?\d+)?)
  | (?P<name>[A-Za-z_][A-Za-z_0-9]*)
  | (?P<sup>⁻?[⁰¹²³⁴⁵⁶⁷⁸⁹]+)
  | (?P<op>\*\*|//|[-+*/^()])
""", re.X)


class RefSyntaxError(Exception):
    def __init__(self, reason):
        super().__init__(reason)
        self.reason = reason


def ref_tokens(s):
    """[(kind, text, start, end)]; raises RefSyntaxError('lexical') on foreign characters."""
    out, i = [], 0
    while i < len(s):
        m = _TOK.match(s, i)
        if not m:
            raise RefSyntaxError("lexical")
        if m.lastgroup != "ws":
            out.append((m.lastgroup, m.group(), m.start(), m.end()))
        i = m.end()
    return out


def ref_parse(s):
    toks = ref_tokens(s)
    toks.append(("end", "", len(s), len(s)))
    pos = 0

    def peek():
        return toks[pos]

    def prev():
        return toks[pos - 1] if pos else ("start", "", 0, 0)

    def fail_operand():
        pk, pt = prev()[0], prev()[1]
        ck, ct = peek()[0], peek()[1]
        if pk == "op" and pt == "(" and ck == "op" and ct == ")":
            raise RefSyntaxError("empty-parens")
        if pk == "op" and pt not in "()":
            raise RefSyntaxError("no-operand-after:" + pt)
        if ck == "op" and ct not in "()":
            raise RefSyntaxError("no-operand-before:" + ct)
        if ck == "op" and ct == ")":
            raise RefSyntaxError("unbalanced-close")
        if ck == "end":
            raise RefSyntaxError("empty")
        raise RefSyntaxError("other")

    def atom():
        nonlocal pos
        k, txt = peek()[0], peek()[1]
        if k == "num":
            pos += 1
            return ("n", txt)
        if k == "name":
            pos += 1
            return ("u", txt)
        if k == "op" and txt == "(":
            pos += 1
            e = expr()
            if peek()[0] == "op" and peek()[1] == ")":
                pos += 1
                return e
            if peek()[0] == "end":
                raise RefSyntaxError("unbalanced-open")
            raise RefSyntaxError("other")
        fail_operand()

    def power():
        nonlocal pos
        b = atom()
        k, txt = peek()[0], peek()[1]
        if k == "sup":
            pos += 1
            d = txt.translate(_UNSUP)
            e = ("neg", ("n", d[1:])) if d.startswith("-") else ("n", d)
            if peek()[0] == "op" and peek()[1] in ("**", "^"):
                raise RefSyntaxError("other")
            return ("**", b, e)
        if k == "op" and txt in ("**", "^"):
            pos += 1
            return ("**", b, factor())
        return b

    def factor():
        nonlocal pos
        k, txt = peek()[0], peek()[1]
        if k == "op" and txt in "+-" and len(txt) == 1:
            pos += 1
            return ("neg" if txt == "-" else "pos", factor())
        return power()

    def term():
        nonlocal pos
        left = factor()
        while True:
            k, txt = peek()[0], peek()[1]
            if k == "op" and txt in ("*", "/", "//"):
                pos += 1
                left = (txt, left, factor())
            elif k in ("num", "name") or (k == "op" and txt == "("):
                left = ("*", left, power())
            else:
                return left

    def expr():
        nonlocal pos
        left = term()
        while peek()[0] == "op" and peek()[1] in ("+", "-"):
            op = peek()[1]
            pos += 1
            left = (op, left, term())
        return left

    e = expr()
    if peek()[0] != "end":
        if peek()[0] == "op" and peek()[1] == ")":
            raise RefSyntaxError("unbalanced-close")
        raise RefSyntaxError("other")
    return e


def python_tree(s):
    """Read an explicit-operator rendering with Python's own grammar (ast)."""
    node = ast.parse(s.strip().replace("^", "**"), mode="eval").body
    binmap = {ast.Add: "+", ast.Sub: "-", ast.Mult: "*", ast.Div: "/", ast.FloorDiv: "//", ast.Pow: "**"}

    def go(n):
        if isinstance(n, ast.Constant):
            return ("n", repr(n.value))
        if isinstance(n, ast.Name):
            return ("u", n.id)
        if isinstance(n, ast.UnaryOp):
            return ("neg" if isinstance(n.op, ast.USub) else "pos", go(n.operand))
        if isinstance(n, ast.BinOp):
            return (binmap[type(n.op)], go(n.left), go(n.right))
        raise ValueError(ast.dump(n))

    return go(node)


# --------------------------------------------------------------------------------------
# truncations
# --------------------------------------------------------------------------------------
def truncations(s, rng, per_kind=2):
    """Candidate damaged copies of a valid string: [(kind, string)]."""
    try:
        toks = ref_tokens(s)
    except RefSyntaxError:
        return []
    out = []
    parens = [t for t in toks if t[0] == "op" and t[1] in "()"]
    for t in rng.sample(parens, min(per_kind, len(parens))):
        out.append(("drop-paren" + t[1], s[:t[2]] + s[t[3]:]))
    ops = [t for t in toks if t[0] == "op" and t[1] not in "()"]
    for t in rng.sample(ops, min(per_kind, len(ops))):
        out.append(("cut-after-operator", s[:t[3]] + rng.choice(("", "", " ", ")"))))
    binonly = [t for t in ops if t[1] in ("*", "/", "//", "**", "^")]
    for t in rng.sample(binonly, min(1, len(binonly))):
        out.append(("cut-before-operator", s[t[2]:]))
    operands = [i for i, t in enumerate(toks) if t[0] in ("num", "name")]
    for i in rng.sample(operands, min(per_kind, len(operands))):
        t = toks[i]
        end = t[3]
        if i + 1 < len(toks) and toks[i + 1][0] == "sup":
            end = toks[i + 1][3]
        out.append(("drop-operand", s[:t[2]] + s[end:]))
    return out


# --------------------------------------------------------------------------------------
# hostile strings
# --------------------------------------------------------------------------------------
SNIPPETS = [
    "__import__('os').system('touch {canary}')",
    "__import__('os').system('true')",
    "__import__('subprocess').run(['touch','{canary}'])",
    "open('{canary}','w').write('x')",
    "open('{canary}', 'w')",
    "eval(\"open('{canary}','w')\")",
    "exec(\"import os; os.system('touch {canary}')\")",
    "compile('1','x','eval')",
    "().__class__.__bases__[0].__subclasses__()",
    "(1).__class__.__mro__",
    "''.__class__.__mro__[1].__subclasses__()",
    "ureg.define('c07x = 3 m')",
    "self.define('c07x = 3 m')",
    "define('c07x = 3 m')",
    "load_definitions('{canary}')",
    "self._units", "self.__dict__", "registry.__class__", "meter.__class__", "m.__class__.__init__.__globals__",
    "m.__dict__", "m._REGISTRY", "m._REGISTRY.define", "meter.units.__reduce__()",
    "lambda: 1", "lambda x: x", "(lambda: __import__('os'))()", "(lambda: 2)() m",
    "f'{{1+1}}'", "f\"{{__import__('os').getpid()}}\"", "f'{{m}}'", "f'{{open(\"{canary}\",\"w\")}}' m",
    "(y := 2)", "(y := 2) m", "[x for x in (1,2)]", "{{1: 2}}", "{{1, 2}}", "[1, 2][0]", "(1, 2)",
    "1 if 1 else 2", "not 1", "1 and 2", "1 or 2", "1 < 2", "1 == 1", "1 is 1", "m @ s", "m | s", "m & s",
    "m >> 2", "m << 2", "~m", "m[0]", "m.real", "m.magnitude", "m.to('km')", "m.units", "2 .real",
    "2..real", "2.0.is_integer()", "print(1)", "print('x')", "exit()", "quit()", "help()", "input()",
    "breakpoint()", "globals()", "locals()", "vars()", "dir()", "getattr(m, 'to')", "setattr(m, 'x', 1)",
    "import os", "from os import system", "import os; os.system('touch {canary}')", "1\nimport os",
    "2 m\n__import__('os')", "@property\ndef f(): pass", "class A: pass", "def f(): return 1",
    "yield 1", "await x", "async def f(): pass", "raise SystemExit", "assert 0", "del m", "pass",
    "with open('{canary}','w') as f: pass", "try:\n 1\nexcept: pass", "global x", "return 1",
    "__builtins__", "__builtins__.__dict__['eval']('1')", "__name__", "__file__", "__loader__",
    "__class__", "__dict__", "__init__", "__call__", "__getattr__", "__getattribute__('define')",
    "__reduce__", "__reduce_ex__(2)", "__subclasshook__", "__spec__", "__debug__", "__doc__",
    "None", "True", "False", "Ellipsis", "...", "NotImplemented", "nan", "inf", "-inf", "infinity",
    "1e400", "1e-400", "0x10", "0b101", "0o17", "1j", "1_0", "1__0", "1e", "1e+", "e", "E", "1.e1", "1.E-1",
    "2**2**2**2", "0.5**-99999999999", "2**3**4",
    "\\", "\\n", "\x00", "2 m\x00", "\x00 m", "'", "\"", "'''", "\"\"\"", "'abc'", "b'abc'", "r'\\d'", "u'x'", "'a' 'b'",
    "'a' * 3", "'m'", "\"m\" s", "#", "# comment", "2 m # comment", "2 # m", ";", "2;3", "m;__import__('os')",
    ",", "1,2", "1,000.5 m", "m,s", ":", "m:s", "=", "m=2", "m==s", "+=", "m+=1", "->", "m->s", "!", "m!", "1!",
    "?", "$", "$m", "`m`", "@", "&", "|", "~", "%", "5 % 2", "50%", "%%", "m%s", "'%s' % m",
    "(", ")", "()", "(())", ")(", "((", "))", "(m", "m)", "(m))", "((m)", "[", "]", "[]", "[m]", "{{", "}}", "{{}}",
    "{{m}}", "[length]", "[length] / [time]", "m [s]", "+", "-", "*", "/", "//", "**", "^", "+/-", "±",
    "1 +/-", "+/- 1", "1 +/- 2 +/- 3", "(1 +/- )", "(1 +/- 2", "1(2", "1(2)", "1(2)e", "1(2)e3", "1(2)e+", "1(2)e+03",
    "(1+/-2)e", "(1+/-2)e+", "(1+/-2)e5", "(1+/-2)E5", "(nan+/-nan)", "nan(1)", "1(nan)", "1.0(12) m",
    "1.0(1.2) m", "1(2)(3)", "1(2)m(3)", " ", "  ", "\t", "\n", "\r\n", "\f", "\v", "\x0c2 m", " \n ", "",
    "m  per  s", "per", "per per", "m per", "per m", "squared", "m squared squared", "cubic", "cubic cubic m",
    "sq", "sq sq m", "square", "m squared cubed", "cubic m squared", "square (m)", "(m) squared",
    "°", "°C", "2 °C", "µm", "μm", "Å", "Ω", "ℎ", "m²³", "m⁻", "m⁻⁻²", "²", "⁻²", "m·s", "m⋅s", "m×s", "m÷s", "m−s",
    "m–s", "２ ｍ", "٢ m", "²m", "m ² s", "m**²", "m^²", "2²", "2⁻¹", "m².⁵", "m²·⁵", "m⁰·⁵",
    "dimensionless", "dimensionless dimensionless", "count", "radian", "degC", "degC + degC", "2 degC * 3",
    "delta_degC", "dB", "dBm", "2 dB + 3 dB", "dBm * m", "hour", "hour hour", "min", "bit", "int", "str",
    "abs", "hash", "id", "type", "len", "max", "sum", "pow", "round", "map", "zip", "set", "iter", "next",
]

HEAVY = ["9**9**9**9", "10**10**10", "(2**64)**(2**20)", "2**2**2**2**2**2"]   # hit the watchdog
HOSTILE_CHARS = "()()**//+-^.eE_'\"\\;:=<>[]{}!@#$%&|~,` \t\n#0123456789±²³⁻·°µ"


def _rand_unicode(rng, n):
    out = []
    for _ in range(n):
        r = rng.random()
        if r < 0.45:
            out.append(chr(rng.randint(0x20, 0x7E)))
        elif r < 0.55:
            out.append(chr(rng.randint(0x00, 0x1F)))
        elif r < 0.70:
            out.append(chr(rng.randint(0x80, 0x24F)))
        elif r < 0.78:
            out.append(rng.choice("⁰¹²³⁴⁵⁶⁷⁸⁹⁻·±°µμΩÅℎ"))
        elif r < 0.88:
            out.append(chr(rng.randint(0x370, 0x2FFF)))
        elif r < 0.94:
            out.append(chr(rng.randint(0x3000, 0xD7FF)))
        elif r < 0.96:
            out.append(chr(rng.randint(0xD800, 0xDFFF)))      # lone surrogates
        elif r < 0.99:
            out.append(chr(rng.randint(0x10000, 0x1FFFF)))
        else:
            out.append(chr(rng.randint(0xE000, 0xFFFF)))
    return "".join(out)


def hostile_string(rng, names, canary, valid_pool):
    """One hostile input; returns (family, string)."""
    r = rng.random()
    if r < 0.0003:
        return "snippet", rng.choice(HEAVY)
    if r < 0.14:
        return "unicode", _rand_unicode(rng, rng.randint(1, 24))
    if r < 0.24:
        b = bytes(rng.randrange(256) for _ in range(rng.randint(1, 24)))
        codec, errors = rng.choice((("latin-1", "strict"), ("utf-8", "replace"), ("utf-8", "ignore"),
                                    ("utf-8", "surrogateescape"), ("utf-16", "replace"),
                                    ("cp1252", "ignore"), ("ascii", "backslashreplace")))
        return "bytes", b.decode(codec, errors)
    if r < 0.40:
        s = rng.choice(SNIPPETS).format(canary=canary)
        q = rng.random()
        if q < 0.35:
            s = rng.choice(("2 m * ", "2 ", "(", "m ** ", "- ", "3 km + ", "")) + s + rng.choice(("", " m", " * 2", ")", " ** 2"))
        elif q < 0.6:
            # trigger-like prefixes: a single foreign character or a keyword-looking tag
            s = rng.choice(tuple(HOSTILE_CHARS) + ("eval ", "eval:", "py:", "python:", "exec ", "!!", "$(", "`", "{{", "%%", "=", "==", ">>> "))                 + s + rng.choice(("", "", ")", "`", "}}"))
        return "snippet", s
    if r < 0.55:
        k = rng.randint(1, 4)
        parts = [rng.choice(names) for _ in range(k)]
        s = ".".join(parts)
        if rng.random() < 0.5:
            s += rng.choice(("()", "(1)", "('c07x = 1')", "[0]", ".__call__()", "(m)", " ()", "(2 m)", "('{}')".format(canary)))
        if rng.random() < 0.3:
            s = rng.choice(("2 ", "m * ", "m.", "ureg.", "self.", "2 m + ")) + s
        return "attrchain", s
    if r < 0.68:
        s = rng.choice(names)
        if rng.random() < 0.3:
            s = rng.choice(("2 ", "2 * ", "m / ", "- ", "2 ** ")) + s
        return "name", s
    if r < 0.93:
        s = rng.choice(valid_pool)
        for _ in range(rng.randint(1, 3)):
            i = rng.randint(0, len(s))
            a = rng.random()
            c = rng.choice(HOSTILE_CHARS)
            if a < 0.4:
                s = s[:i] + c + s[i:]
            elif a < 0.7 and s:
                s = s[:i] + s[i + 1:]
            else:
                s = s[:i] + c + s[i + 1:]
        return "mutated", s
    a, b = rng.choice(SNIPPETS).format(canary=canary), rng.choice(SNIPPETS).format(canary=canary)
    return "spliced", a[: rng.randint(0, len(a))] + rng.choice(HOSTILE_CHARS) + b[rng.randint(0, len(b)):]
