"""Seeded generators shared by the checks (no global random state)."""
from __future__ import annotations

import random
from fractions import Fraction as F


def compound(rng: random.Random, names, nmin=1, nmax=4, exps=(-3, -2, -1, 1, 2, 3),
             rational=False):
    """-> dict {name: Fraction exponent} with distinct names."""
    k = rng.randint(nmin, min(nmax, len(names)))
    out = {}
    for n in rng.sample(names, k):
        if rational and rng.random() < 0.3:
            e = F(rng.choice((-3, -1, 1, 3, 5)), rng.choice((2, 3)))
        else:
            e = F(rng.choice(exps))
        out[n] = e
    return out


def render_units(d: dict, style=0) -> str:
    """Render {name: exp} as a pint unit expression string."""
    parts = []
    for n, e in d.items():
        e = F(e)
        if e == 1:
            parts.append(n)
        elif e.denominator == 1:
            parts.append(f"{n}**{int(e)}" if e > 0 else f"{n}**({int(e)})")
        else:
            parts.append(f"{n}**({e.numerator}/{e.denominator})")
    return " * ".join(parts) if parts else "dimensionless"


def magnitudes(rng: random.Random, kind="fraction"):
    """One random magnitude of the requested kind, spanning many decades."""
    from decimal import Decimal
    sign = rng.choice((1, 1, 1, -1))
    mant = rng.randint(1, 9999)
    dec = rng.randint(-6, 6)
    v = F(sign * mant) * F(10) ** dec / 1000
    if kind == "fraction":
        return v
    if kind == "int":
        return sign * rng.randint(0, 1000)
    if kind == "float":
        return float(v)
    if kind == "decimal":
        return Decimal(sign * mant).scaleb(dec - 3)
    raise ValueError(kind)


def canonical_units(model, multiplicative=True, exact_only=False):
    out = []
    for c in model.order:
        if multiplicative and not model.is_multiplicative(c):
            continue
        if exact_only and model.tainted(c):
            continue
        out.append(c)
    return out


def dimension_classes(model, names):
    classes = {}
    for c in names:
        key = tuple(sorted(model.root(c)[2].items()))
        classes.setdefault(key, []).append(c)
    return classes
