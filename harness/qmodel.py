"""Model quantities: (value in root units, dimension vector, exactness) computed from the
independent reference model.  Used by the value oracles of C03, C05, C06, C15."""
from __future__ import annotations

from fractions import Fraction as F

from harness.refmodel import Model, Val, vmul, vpow, mmul, ONE


def unit_kind(m: Model, name: str) -> str:
    """'mult' | 'offset' | 'log' | 'delta' for a spelling (delta_ prefix understood)."""
    if name.startswith("delta_") or name.startswith("Δ"):
        return "delta"
    pc, c = m.resolve(name)
    mods = m.units[c]["mods"]
    if "offset" in mods:
        # kelvin / degree_Rankine carry 'offset: 0' in the file: affine map with zero offset
        return "offset" if mods["offset"].v != 0 else "absolute"
    if "logbase" in mods:
        return "log"
    return "mult"


def strip_delta(name: str) -> str:
    if name.startswith("delta_"):
        return name[6:]
    if name.startswith("Δ"):
        return name[1:]
    return name


def scale_of(m: Model, units: dict):
    """(Val factor to root, root exps, dims) treating every unit by its scale only."""
    f, ru, dm = ONE, {}, {}
    for s, e in units.items():
        e = F(e)
        pv, rr, rd = m.root_of_spelling(strip_delta(s))
        f = vmul(f, vpow(pv, e))
        ru = mmul(ru, rr, e)
        dm = mmul(dm, rd, e)
    return f, ru, dm


def root_value(m: Model, x: F, units: dict):
    """-> (Fraction or float value in root units, dims dict, exact flag).

    A single offset unit with exponent 1 uses its affine map; everything else (including
    delta_ units and absolute units with zero offset) is multiplicative."""
    items = list(units.items())
    if len(items) == 1 and F(items[0][1]) == 1:
        s = items[0][0]
        k = unit_kind(m, s)
        if k == "offset":
            pc, c = m.resolve(s)
            u = m.units[c]
            f, ru, dm = scale_of(m, units)
            off = u["mods"]["offset"]          # in reference units
            scale = u["scale"]
            # root = (x*scale + off) * factor(ref) = x*f + off * f/scale
            per = vmul(f, vpow(scale, F(-1)))
            if f.exact and off.exact and per.exact:
                return x * f.v + off.v * per.v, dm, True
            return float(x) * f.f() + off.f() * per.f(), dm, False
    f, ru, dm = scale_of(m, units)
    if f.exact:
        return x * f.v, dm, True
    return float(x) * f.f(), dm, False


def same_physical(a, b, tol=F(1, 10 ** 9)):
    """a, b = (value, dims, exact)."""
    if a[1] != b[1]:
        return False
    if a[2] and b[2]:
        return a[0] == b[0]
    fa, fb = float(a[0]), float(b[0])
    return abs(fa - fb) <= float(tol) * max(abs(fa), abs(fb))
