"""Independent readers for pint's textual unit / quantity formats (property C09).

Nothing here imports pint.  Every reader turns a rendered string into the list of terms
it *denotes*:  [(display name, signed effective exponent as Fraction)], where a term
written in a denominator position contributes the negated written exponent (so
``a / b ** 2`` and ``a * b ** -2`` denote the same thing, and ``a / b ** -2`` denotes
b to the +2).  Readers follow ordinary arithmetic reading (left associative * and /,
** binds tighter, parentheses group; in HTML a blank between two names is a product of
the same precedence as /).  A bare number other than the placeholder ``1`` is not part of
any pint unit rendering and is refused (ReadError 'numeric-factor').
"""
from __future__ import annotations

import re
from fractions import Fraction as F


class ReadError(Exception):
    def __init__(self, cls, detail=""):
        super().__init__(f"{cls}: {detail}")
        self.cls = cls
        self.detail = detail


_NUM = re.compile(r"^[+-]?(?:\d+\.?\d*|\.\d+)(?:[eE][+-]?\d+)?$")
_SUP = "⁰¹²³⁴⁵⁶⁷⁸⁹"
_SUPSET = set(_SUP) | {"⁻", "⋅"}
_SUPMAP = {c: str(i) for i, c in enumerate(_SUP)}
_SUPMAP["⁻"] = "-"
_SUPMAP["⋅"] = "."


def num(text: str) -> F:
    text = text.strip()
    if not _NUM.match(text):
        raise ReadError("bad-exponent", text)
    return F(text)


# ---------------------------------------------------------------------------
# tokenisers  ->  list of (kind, value)
#   kinds: name, num, mul, div, pow (value = exponent text), powop, lp, rp, jux
# ---------------------------------------------------------------------------
def _word(tok):
    return ("num", tok) if _NUM.match(tok) and tok[0] not in "+-" else ("name", tok)


def tok_ascii(s: str):
    out, i, n = [], 0, len(s)
    while i < n:
        c = s[i]
        if c in " \t":
            i += 1
        elif s.startswith("**", i):
            out.append(("powop", "**"))
            i += 2
        elif c == "*":
            out.append(("mul", c))
            i += 1
        elif c == "/":
            out.append(("div", c))
            i += 1
        elif c == "(":
            out.append(("lp", c))
            i += 1
        elif c == ")":
            out.append(("rp", c))
            i += 1
        else:
            j = i
            while j < n and s[j] not in " \t*/()":
                j += 1
            w = s[i:j]
            # a sign directly after '**' belongs to the exponent: "x ** -1.5"
            if out and out[-1][0] == "powop" and _NUM.match(w):
                out.append(("num", w))
            else:
                out.append(_word(w))
            i = j
    return out


def tok_pretty(s: str):
    out, i, n = [], 0, len(s)
    while i < n:
        c = s[i]
        if c in " \t":
            raise ReadError("unexpected-blank", s)
        if c in _SUPSET:
            j = i
            while j < n and s[j] in _SUPSET:
                j += 1
            out.append(("pow", "".join(_SUPMAP[x] for x in s[i:j])))
            i = j
        elif c == "·":
            out.append(("mul", c))
            i += 1
        elif c == "/":
            out.append(("div", c))
            i += 1
        elif c == "(":
            out.append(("lp", c))
            i += 1
        elif c == ")":
            out.append(("rp", c))
            i += 1
        elif c == "*":
            raise ReadError("ascii-operator-in-pretty", s)
        else:
            j = i
            while j < n and s[j] not in _SUPSET and s[j] not in " \t·/()*":
                j += 1
            out.append(_word(s[i:j]))
            i = j
    return out


_HTML_TOK = re.compile(r"<sup>(.*?)</sup>|(/)|(\()|(\))|( +)|([^ /()<]+)|(.)", re.S)


def tok_html(s: str):
    out = []
    for m in _HTML_TOK.finditer(s):
        sup, div, lp, rp, sp, word, other = m.groups()
        if sup is not None:
            out.append(("pow", sup))
        elif div:
            out.append(("div", div))
        elif lp:
            out.append(("lp", lp))
        elif rp:
            out.append(("rp", rp))
        elif sp:
            out.append(("jux", sp))
        elif word:
            out.append(_word(word))
        else:
            raise ReadError("stray-character", other)
    # a blank is a product only between two operands
    res = []
    for k, (kind, v) in enumerate(out):
        if kind == "jux":
            prev = res[-1][0] if res else None
            nxt = out[k + 1][0] if k + 1 < len(out) else None
            if prev in ("name", "num", "pow", "rp") and nxt in ("name", "num", "lp"):
                res.append(("mul", " "))
            else:
                raise ReadError("stray-blank", s)
        else:
            res.append((kind, v))
    return res


# ---------------------------------------------------------------------------
# arithmetic reading of a token list
# ---------------------------------------------------------------------------
class _Arith:
    def __init__(self, toks):
        self.t, self.i = toks, 0

    def peek(self):
        return self.t[self.i] if self.i < len(self.t) else (None, None)

    def next(self):
        x = self.peek()
        self.i += 1
        return x

    def expr(self):
        terms = self.factor()
        while self.peek()[0] in ("mul", "div"):
            op = self.next()[0]
            rhs = self.factor()
            if op == "div":
                rhs = [(n, -e) for n, e in rhs]
            terms = terms + rhs
        return terms

    def factor(self):
        kind, v = self.next()
        if kind == "lp":
            base = self.expr()
            if self.next()[0] != "rp":
                raise ReadError("unbalanced-parenthesis")
        elif kind == "name":
            base = [(v, F(1))]
        elif kind == "num":
            if v != "1":
                raise ReadError("numeric-factor", v)
            base = []
        else:
            raise ReadError("unexpected-token", f"{kind}:{v}")
        k2, v2 = self.peek()
        if k2 == "pow":
            self.next()
            e = num(v2)
            base = [(n, x * e) for n, x in base]
        elif k2 == "powop":
            self.next()
            k3, v3 = self.next()
            if k3 != "num":
                raise ReadError("bad-exponent", f"{k3}:{v3}")
            e = num(v3)
            base = [(n, x * e) for n, x in base]
        if self.peek()[0] in ("pow", "powop"):
            raise ReadError("double-exponent")
        return base


def _read_tokens(toks):
    if not toks:
        return []
    p = _Arith(toks)
    terms = p.expr()
    if p.i != len(toks):
        raise ReadError("trailing-text", repr(toks[p.i:]))
    return terms


def read_plain(s: str):      # D, C, raw
    return _read_tokens(tok_ascii(s))


def read_pretty(s: str):     # P
    return _read_tokens(tok_pretty(s))


def read_html(s: str):       # H
    return _read_tokens(tok_html(s))


# ---------------------------------------------------------------------------
# LaTeX:  \frac{..}{..}, \mathrm{..}, ^{..}, \cdot, \left( \right)
# ---------------------------------------------------------------------------
_UNESC = [("\\textbackslash ", "\\"), ("\\textasciitilde ", "~"), ("\\textasciicircum ", "^"),
          ("\\&", "&"), ("\\%", "%"), ("\\$", "$"), ("\\#", "#"), ("\\_", "_"),
          ("\\{", "{"), ("\\}", "}")]


def latex_unescape(s: str) -> str:
    out, i = [], 0
    while i < len(s):
        for a, b in _UNESC:
            if s.startswith(a, i):
                out.append(b)
                i += len(a)
                break
        else:
            if s[i] == "\\":
                raise ReadError("unknown-latex-escape", s[i:i + 12])
            if s[i] in "&%$#_{}~^":
                # active in LaTeX: an unescaped one does not denote the character
                raise ReadError("unescaped-latex-special", s[i])
            out.append(s[i])
            i += 1
    return "".join(out)


def _group(s: str, i: int):
    """s[i] == '{' -> (content, index after the matching '}'); escaped braces skipped."""
    if i >= len(s) or s[i] != "{":
        raise ReadError("expected-brace", s[i:i + 10])
    depth, j = 0, i
    while j < len(s):
        c = s[j]
        if c == "\\":
            j += 2
            continue
        if c == "{":
            depth += 1
        elif c == "}":
            depth -= 1
            if depth == 0:
                return s[i + 1:j], j + 1
        j += 1
    raise ReadError("unbalanced-brace", s[i:])


def _latex_product(s: str):
    s = s.strip()
    if s.startswith("\\left(") and s.endswith("\\right)"):
        s = s[len("\\left("):-len("\\right)")].strip()
    if s == "1":
        return []
    terms, i = [], 0
    while True:
        if not s.startswith("\\mathrm", i):
            raise ReadError("expected-mathrm", s[i:i + 20])
        name, i = _group(s, i + len("\\mathrm"))
        e = F(1)
        if s.startswith("^", i):
            et, i = _group(s, i + 1)
            e = num(et)
        terms.append((latex_unescape(name), e))
        if i == len(s):
            return terms
        if not s.startswith(" \\cdot ", i):
            raise ReadError("expected-cdot", s[i:i + 20])
        i += len(" \\cdot ")


def read_latex(s: str):      # L
    if s == "":
        return []
    if s.startswith("\\frac"):
        a, i = _group(s, len("\\frac"))
        b, j = _group(s, i)
        if j != len(s):
            raise ReadError("trailing-text", s[j:])
        den = _latex_product(b)
        if not den:
            raise ReadError("empty-denominator", s)
        return _latex_product(a) + [(n, -e) for n, e in den]
    return _latex_product(s)


# ---------------------------------------------------------------------------
# siunitx: macro sequence  [\per] [\prefix] \unit [\squared|\cubed|\tothe{n}]
# returns [(prefix or '', unit macro, signed exponent)]
# ---------------------------------------------------------------------------
def read_siunitx(body: str, prefix_names):
    if body == "":
        return []
    if not body.startswith("\\"):
        raise ReadError("expected-macro", body[:10])
    macros = body.split("\\")[1:]
    terms = []
    cur = None          # [sign, prefix, unit, exp]

    def close():
        nonlocal cur
        if cur is not None:
            if cur[2] is None:
                raise ReadError("term-without-unit", body)
            terms.append((cur[1] or "", cur[2], cur[0] * (cur[3] if cur[3] is not None else F(1))))
        cur = None

    n = len(macros)
    for k, mc in enumerate(macros):
        if mc == "":
            raise ReadError("empty-macro", body)
        is_pow = mc in ("squared", "cubed") or mc.startswith("tothe{")
        if mc == "per":
            close()
            cur = [F(-1), None, None, None]
        elif is_pow:
            if cur is None or cur[2] is None or cur[3] is not None:
                raise ReadError("dangling-power", body)
            if mc == "squared":
                cur[3] = F(2)
            elif mc == "cubed":
                cur[3] = F(3)
            else:
                if not mc.endswith("}"):
                    raise ReadError("bad-tothe", mc)
                cur[3] = num(mc[len("tothe{"):-1])
        else:
            if "{" in mc or "}" in mc or " " in mc:
                raise ReadError("bad-macro", mc)
            if cur is not None and cur[2] is not None:
                close()
            if cur is None:
                cur = [F(1), None, None, None]
            nxt = macros[k + 1] if k + 1 < n else None
            nxt_is_unit = nxt is not None and nxt != "per" and not (
                nxt in ("squared", "cubed") or nxt.startswith("tothe{"))
            if cur[1] is None and mc in prefix_names and nxt_is_unit:
                cur[1] = mc
            else:
                cur[2] = mc
    close()
    return terms


# ---------------------------------------------------------------------------
# magnitudes: Python's own text and the documented x10^n rewrites
# ---------------------------------------------------------------------------
_SCI = re.compile(r"(\d\.?\d*)e([+-]?)0*(\d+)")


def _sup(exp: int) -> str:
    return "".join("⁻" if c == "-" else _SUP[int(c)] for c in str(exp))


def sci_rewrites(text: str):
    """text as produced by format(m, mspec) -> {family: text with EVERY d.ddde+xx occurrence
    rewritten with its own exponent} (empty dict if there is no such occurrence)."""
    if not _SCI.search(text):
        return {}

    def sub(fmt):
        def f(m):
            exp = int(("-" if m.group(2) == "-" else "") + m.group(3))
            return fmt(m.group(1), exp)
        return _SCI.sub(f, text)

    return {
        "P": sub(lambda mant, e: f"{mant}×10{_sup(e)}"),
        "H": sub(lambda mant, e: f"{mant}×10<sup>{e}</sup>"),
        "L": sub(lambda mant, e: f"{mant}\\times 10^{{{e}}}"),
    }


def split_magnitude(s: str, candidates, joiners):
    """Find a candidate magnitude text at the start of s followed by end-of-string or a
    joiner.  -> (candidate, joiner, rest) or None."""
    for c in sorted(candidates, key=len, reverse=True):
        if s.startswith(c):
            rest = s[len(c):]
            if rest == "":
                return c, "", ""
            for j in joiners:
                if rest.startswith(j):
                    return c, j, rest[len(j):]
    return None
