"""Monitors attached to the live pint classes from outside (no source hooks).

* container invariants: icontract class invariants on UnitsContainer (and so ParserHelper):
  no zero exponent, keys are str, cached hash matches the items.  Conditions RECORD and
  return True, so a violation never aborts the execution it observes.
* operand snapshots: fingerprints of objects before/after a call.
"""
from __future__ import annotations

import sys

_state = {"evals": 0, "broken": [], "installed": False}


def _stack_hint():
    f = sys._getframe(3)
    out = []
    while f and len(out) < 6:
        fn = f.f_code.co_filename
        if "/pint/" in fn and "icontract" not in fn:
            out.append(f"{fn.split('/pint/')[-1]}:{f.f_lineno}:{f.f_code.co_name}")
        f = f.f_back
    return out


def _no_zero(self):
    _state["evals"] += 1
    d = self._d
    for k, v in d.items():
        if v == 0:
            if len(_state["broken"]) < 50:
                _state["broken"].append(("zero-exponent", repr(dict(d)), type(self).__name__, _stack_hint()))
            break
    return True


def _keys_str(self):
    for k in self._d:
        if not isinstance(k, str):
            if len(_state["broken"]) < 50:
                _state["broken"].append(("non-str-key", repr(dict(self._d)), type(self).__name__, _stack_hint()))
            break
    return True


def _hash_fresh(self):
    h = self._hash
    if h is not None and h != hash(frozenset(self._d.items())):
        if len(_state["broken"]) < 50:
            _state["broken"].append(("stale-hash", repr(dict(self._d)), type(self).__name__, _stack_hint()))
    return True


def install_container_invariants():
    """Decorate pint.util.UnitsContainer in place; returns False if icontract is missing."""
    if _state["installed"]:
        return True
    try:
        import icontract
    except ImportError:
        return False
    from pint.util import UnitsContainer

    for f in (_no_zero, _keys_str, _hash_fresh):
        r = icontract.invariant(f)(UnitsContainer)
        assert r is UnitsContainer
    _state["installed"] = True
    return True


def drain(rec, workload=""):
    """Move recorded invariant breaks into the recorder; report evaluation count."""
    rec.count("container_invariant_evals", _state["evals"])
    _state["evals"] = 0
    for kind, items, cls, stack in _state["broken"]:
        rec.violation("container-invariant:" + kind,
                      {"items": items, "class": cls, "stack": stack, "workload": workload},
                      cls=cls, where=(stack[0].rsplit(":", 2)[0] + ":" + stack[0].rsplit(":", 1)[1]) if stack else "?")
    _state["broken"].clear()


# ---------------------------------------------------------------------------
def fp_container(c):
    """Fingerprint of a UnitsContainer / ParserHelper: content + types (not the lazy hash)."""
    items = tuple(sorted((k, repr(v), type(v).__name__) for k, v in c._d.items()))
    return (type(c).__name__, items, repr(getattr(c, "scale", None)), c._non_int_type.__name__)


def fp_quantity(q):
    m = q._magnitude
    try:
        import numpy as np
        if isinstance(m, np.ndarray):
            mm = ("nd", m.dtype.str, m.shape, m.tobytes())
        else:
            mm = (type(m).__name__, repr(m))
    except ImportError:
        mm = (type(m).__name__, repr(m))
    return (mm, id(q._units), fp_container(q._units))


def fp(obj):
    if hasattr(obj, "_magnitude"):
        return fp_quantity(obj)
    if hasattr(obj, "_units") and hasattr(obj._units, "_d"):
        return ("unit", fp_container(obj._units))
    if hasattr(obj, "_d"):
        return fp_container(obj)
    return ("plain", type(obj).__name__, repr(obj))
