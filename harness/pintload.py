"""Import pint from $PINT_REPO (default /repo) and refuse anything else."""
import logging
import os
import sys
import warnings

REPO = os.path.realpath(os.environ.get("PINT_REPO", "/repo"))
if REPO not in sys.path[:1]:
    sys.path.insert(0, REPO)
warnings.simplefilter("ignore")
import pint  # noqa: E402

if not os.path.realpath(pint.__file__).startswith(REPO + os.sep):
    raise RuntimeError(f"pint imported from {pint.__file__}, expected {REPO}")
logging.getLogger("pint").setLevel(logging.CRITICAL)
logging.getLogger("pint.util").setLevel(logging.CRITICAL)
logging.disable(logging.CRITICAL)

DATA = os.path.join(REPO, "pint")
DEFAULT_FILE = os.path.join(DATA, "default_en.txt")


def registry(**kw):
    kw.setdefault("cache_folder", None)
    return pint.UnitRegistry(**kw)
