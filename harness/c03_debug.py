"""Debug driver: run one C03 shard in-process and print a summary (not used by ./check)."""
import json, sys, os, time
sys.path.insert(0, "/verif"); sys.path.insert(1, "/verif/.deps")
from harness.core import Rec
import importlib

def main():
    mod = importlib.import_module("checks.c03")
    tier = os.environ.get("TIER", "quick")
    want = sys.argv[1]
    seed = int(os.environ.get("VERIF_SEED", "0"))
    specs = mod.shards(tier, seed)
    for i, s in enumerate(specs):
        s.setdefault("seed", (seed * 1000003 + i * 7919 + 17) & 0x7FFFFFFF)
        s["tier"] = tier
    spec = next(s for s in specs if s["name"] == want)
    for a in sys.argv[2:]:
        k, v = a.split("=")
        spec[k] = json.loads(v)
    rec = Rec(spec)
    t0 = time.time()
    mod.run_shard(spec, rec)
    d = rec.dump()
    print("cpu", round(time.process_time(), 1), "wall", round(time.time() - t0, 1), "evals", d["evals"], "distinct", len(d["keys"]))
    for k, v in sorted(d["counters"].items()):
        print("  ", k, v)
    for k, v in d["observed"].items():
        print("  observed", k, len(v))
    if os.environ.get("LINES"):
        json.dump({"seen": d["observed"].get("anchored_lines", []), "total": d["observed"].get("anchored_lines_total", [])}, open(os.environ["LINES"], "w"))
    print("maxima", d["maxima"])
    print("inconclusive", d["inconclusive"])
    for v in d["viol"]:
        print("VIOL", json.dumps(v["fields"], sort_keys=True), "x", v["count"])
        for w in v["witnesses"][:int(os.environ.get("NW", "2"))]:
            print("     ", json.dumps(w, default=repr)[:1500])
main()
