"""C06 — unit model and RULE TABLE for offset / absolute / delta / logarithmic units.

No pint import here.  Everything the table demands is taken from one of these sources and
every rule carries the tag of its source (printed in the evidence file, key `rules_used`):

  NM    /repo/docs/user/nonmult.rst           (section / example quoted in the rule)
  LU    /repo/docs/user/log_units.rst
  TQ    /repo/pint/testsuite/test_quantity.py::TestOffsetUnitMath  (table name + row pattern)
  TZ    /repo/pint/testsuite/test_quantity.py::test_offset_equal_zero / _autoconvert_equal_zero /
        test_offset_gt_zero / test_offset_autoconvert_gt_zero
  TO    /repo/pint/testsuite/test_quantity.py::test_offset / test_offset_delta (conversion rows)
  TL    /repo/pint/testsuite/test_log_units.py (test_log_convert, test_mix_regular_log_units, creation)
  TU    /repo/pint/testsuite/test_unit.py::test_as_delta
  DEF   /repo/pint/default_en.txt line 515 and LogarithmicConverter docstring
        ("x_dB = [logfactor] * log( x_lin / [scale] ) / log( [logbase] )")

The literal tables of TQ are written for kelvin, degC, degF, degR, delta_degC, delta_degF and the
magnitudes 100 and 10.  They are generalised here by KIND:
  OFF    affine unit with non-zero offset   (degC, degF, degRe, generated offset units)
  ABS    multiplicative, non-delta unit     (kelvin, degR, generated reference units)
  DELTA  automatically defined delta_ unit  (scale of its offset unit, no offset)
  LOG    logarithmic unit
and by the unit's (a, b): value in root units = a*x + b (b = 0 unless OFF).

A cell for which no source says anything returns Unspecified: the check records
"unspecified, observed X" and never alarms on it.
"""
from __future__ import annotations

import math
from fractions import Fraction as F

OFF, ABS, DELTA, LOG = "OFF", "ABS", "DELTA", "LOG"
MULT = "MULT"        # single multiplicative unit of a dimension without offset units (meter, hertz)
NUM = "NUM"          # bare number operand
DLESS = "DLESS"      # dimensionless quantity with empty units
MULTC = "MULTC"      # compound of multiplicative units only (may contain delta_ units)
COFF = "COFF"        # compound containing one OFF unit (other units present or exponent != 1)
CLOG = "CLOG"        # same with a LOG unit
MANY = "MANY"        # more than one non-multiplicative unit

E_OFFSET = "OffsetUnitCalculusError"
E_DIM = "DimensionalityError"


class UM:
    """Model of one unit.  root value of x [unit] = a*x + b            (affine kinds)
                                                  = a * logbase**(x/logfactor)  (LOG)"""
    __slots__ = ("name", "kind", "a", "b", "root", "dims", "ref", "logbase", "logfactor", "exact")

    def __init__(self, name, kind, a, b=F(0), root=None, dims=None, ref=None, logbase=None,
                 logfactor=None, exact=True):
        self.name, self.kind, self.a, self.b = name, kind, a, b
        self.root = dict(root or {})
        self.dims = dict(dims or {})
        self.ref = ref
        self.logbase, self.logfactor = logbase, logfactor
        self.exact = exact

    def __repr__(self):
        return f"UM({self.name},{self.kind},a={self.a},b={self.b})"


class MQ:
    """Model quantity: magnitude (Fraction | float | ndarray) and {unit name: exponent}."""
    __slots__ = ("x", "units")

    def __init__(self, x, units):
        self.x = x
        self.units = {k: F(v) for k, v in units.items() if v != 0}


class Expect:
    """kind: 'value' (x, units) | 'raise' (classes) | 'bool' (x) | 'unspecified'"""
    __slots__ = ("kind", "x", "units", "classes", "rule", "scale", "back_scale")

    def __init__(self, kind, rule, x=None, units=None, classes=(), scale=None):
        self.kind, self.rule, self.x, self.units, self.classes = kind, rule, x, units, classes
        self.scale = scale      # size of the intermediate terms (for the float tolerance)
        self.back_scale = None  # same, for the inverse conversion


def value(rule, x, units, scale=None):
    return Expect("value", rule, x=x, units={k: F(v) for k, v in units.items() if v != 0}, scale=scale)


def raises(rule, *classes):
    return Expect("raise", rule, classes=classes or (E_OFFSET,))


def boolean(rule, x):
    return Expect("bool", rule, x=x)


def unspecified(note):
    return Expect("unspecified", note)


# ---------------------------------------------------------------------------
# helpers
# ---------------------------------------------------------------------------
def is_array(x):
    return hasattr(x, "shape") and hasattr(x, "dtype")


def const(c, like):
    """A model constant usable next to magnitude `like` (exact next to Fractions)."""
    if isinstance(like, (F, int)) and not isinstance(like, bool):
        return c
    return float(c)


def umul(a: dict, b: dict, e=1) -> dict:
    d = dict(a)
    for k, v in b.items():
        nv = d.get(k, 0) + F(v) * e
        if nv == 0:
            d.pop(k, None)
        else:
            d[k] = nv
    return d


def upow(a: dict, e) -> dict:
    e = F(e) if not isinstance(e, float) else F(e).limit_denominator(10 ** 6)
    return {k: v * e for k, v in a.items() if v * e != 0}


class Table:
    """Rule table bound to a unit-model dictionary {canonical name: UM}."""

    def __init__(self, um: dict):
        self.um = um
        self.used = {}

    # -- classification ---------------------------------------------------
    def shape(self, q) -> str:
        if not isinstance(q, MQ):
            return NUM
        if not q.units:
            return DLESS
        nonmult = [(n, e) for n, e in q.units.items() if self.um[n].kind in (OFF, LOG)]
        if len(nonmult) > 1:
            return MANY
        if not nonmult:
            if len(q.units) == 1:
                (n, e), = q.units.items()
                if e == 1:
                    return self.um[n].kind          # ABS or DELTA
            return MULTC
        (n, e), = nonmult
        k = self.um[n].kind
        if len(q.units) == 1 and e == 1:
            return k
        return COFF if k == OFF else CLOG

    def single(self, q) -> UM:
        (n, e), = q.units.items()
        return self.um[n]

    def dims(self, q) -> dict:
        d = {}
        for n, e in q.units.items():
            d = umul(d, self.um[n].dims, e)
        return d

    def factor(self, units: dict):
        """scale-only factor to root units of a multiplicative compound."""
        f = F(1)
        for n, e in units.items():
            a = self.um[n].a
            if e.denominator != 1:
                return float(a) ** float(e) * float(f)
            f = f * a ** int(e)
        return f

    def root_units(self, units: dict) -> dict:
        d = {}
        for n, e in units.items():
            d = umul(d, self.um[n].root, e)
        return d

    def root_value(self, q):
        """value of a single-unit / multiplicative quantity in root units (affine for OFF, LOG map)."""
        s = self.shape(q)
        if s in (OFF,):
            u = self.single(q)
            return const(u.a, q.x) * q.x + const(u.b, q.x)
        if s == LOG:
            u = self.single(q)
            return float(u.a) * _exp(math.log(float(u.logbase)) * (_f(q.x) / float(u.logfactor)))
        if s in (ABS, DELTA, MULTC, DLESS, MULT):
            return const(self.factor(q.units), q.x) * q.x
        raise ValueError(s)

    def _use(self, e: Expect):
        self.used[e.rule] = self.used.get(e.rule, 0) + 1
        return e

    # -- conversion -------------------------------------------------------
    def convert(self, q: MQ, dst: dict, autoconvert: bool) -> Expect:
        return self._use(self._convert(q, {k: F(v) for k, v in dst.items() if v != 0}, autoconvert))

    def _convert(self, q, dst, autoconvert):
        sq, sd = self.shape(q), self.shape(MQ(0, dst))
        if MANY in (sq, sd):
            return raises("CONV-many: two offset units in one operand cannot be converted "
                          "[registry.py::_validate_and_extract docstring 'more than one offset unit'; "
                          "statement: DimensionalityError on conversion]", E_DIM)
        if self.dims(q) != self.dims(MQ(0, dst)):
            return raises("CONV-dim: different dimensionality -> DimensionalityError [statement; C01]", E_DIM)
        aff = (OFF, ABS)
        mult = (ABS, DELTA, MULTC, DLESS, MULT)
        if sq in aff and sd in aff:
            us, ud = self.single(q), self.single(MQ(0, dst))
            x = q.x
            w = (const(us.a, x) * x + const(us.b - ud.b, x)) / const(ud.a, x)
            e = value("CONV-affine: y = (a_s*x + b_s - b_d)/a_d [NM intro + examples 25.4 degC -> 77.72 degF / "
                      "298.55 K / 537.39 degR; TO all rows]", w, dst,
                      scale=_mag(x) * abs(float(us.a / ud.a)) + abs(float(us.b / ud.a)) + abs(float(ud.b / ud.a)))
            e.back_scale = _mag(x) + abs(float(us.b / us.a)) + abs(float(ud.b / us.a))
            return e
        if sq in mult and sd in mult:
            r = self.factor(q.units) / self.factor(dst)
            return value("CONV-scale: delta and absolute units convert by scale only [NM '12.3 delta_degC -> "
                         "12.3 kelvin, 22.14 delta_degF', 'speed.to(delta_degC/second)'; TO test_offset_delta]",
                         const(r, q.x) * q.x, dst)
        if (sq == OFF and _has_delta(dst)) or (sd == OFF and _has_delta(q.units)):
            return raises("CONV-off-delta: offset <-> delta conversion is refused with DimensionalityError "
                          "[statement 'DimensionalityError on conversion'; registry.py::_convert "
                          "'if any(u.startswith(\"delta_\")) raise DimensionalityError']", E_DIM)
        if sq == LOG and sd == LOG or (sq == LOG and sd in mult) or (sq in mult and sd == LOG):
            lin = self.root_value(q)
            if sd == LOG:
                ud = self.single(MQ(0, dst))
                w = float(ud.logfactor) * _log(lin / float(ud.a)) / math.log(float(ud.logbase))
            else:
                w = lin / float(self.factor(dst))
            return value("CONV-log: x_log = logfactor*log(x_lin/scale)/log(logbase) and its inverse [DEF; LU "
                         "'20 dBm -> 100 mW', '20 dB -> 100', '100 mW -> 20 dBm', '4 -> 2 octave'; "
                         "TL test_log_convert]", w, dst)
        if sq in (COFF, CLOG) or sd in (COFF, CLOG):
            if not autoconvert and (sq == COFF or sd == COFF):
                return raises("CONV-compound: an offset unit in a multiplicative context (other units present "
                              "or exponent != 1) is not convertible [registry.py::_validate_and_extract "
                              "'offset unit used in multiplicative context' / 'offset units in higher order'; "
                              "statement: DimensionalityError on conversion]", E_DIM)
            return unspecified("CONV compound with offset/log unit (autoconvert or log)")
        return unspecified(f"CONV {sq}->{sd}")

    # -- addition / subtraction ------------------------------------------
    def addsub(self, op: str, L, R) -> Expect:
        return self._use(self._addsub(op, L, R))

    def _addsub(self, op, L, R):
        sl, sr = self.shape(L), self.shape(R)
        sign = 1 if op == "+" else -1
        single = (OFF, ABS, DELTA, MULT)
        if sl not in single or sr not in single:
            return unspecified(f"{op} {sl} {sr}")
        if self.dims(L) != self.dims(R):
            return raises("ADD-dim: operands of different dimensionality -> DimensionalityError [general rule, "
                          "quantity.py::_add_sub first guard; statement]", E_DIM)
        ul, ur = self.single(L), self.single(R)
        x, y = L.x, R.x
        c = lambda v: const(v, x if not is_array(y) else y)   # noqa: E731
        sc = (_mag(x) + _mag(y)) * max(1.0, abs(float(ur.a / ul.a)), abs(float(ul.a / ur.a))) \
            + abs(float(ul.b / ul.a)) + abs(float(ur.b / ur.a)) + abs(float(ur.b / ul.a)) + abs(float(ul.b / ur.a))
        mode_note = " (mode independent: NM lists only mul/div/pow as changed by autoconvert)"
        # multiplicative pairs
        if sl != OFF and sr != OFF:
            if sl == DELTA and sr in (ABS, MULT):
                w = c(ul.a / ur.a) * x + sign * y
                return value(f"ADD-delta{op}abs: result in the RIGHT (absolute) unit, scale only "
                             "[TQ additions/subtractions rows 'delta_degC, kelvin -> kelvin', "
                             "'delta_degF, kelvin -> 65.56/45.56 kelvin', 'delta_degC, degR -> degR']" + mode_note,
                             w, R.units, sc)
            w = x + sign * c(ur.a / ul.a) * y
            return value(f"ADD-mult{op}mult: result in the LEFT unit, scale only [TQ additions/subtractions rows "
                         "'kelvin, degR -> 105.56/94.44 kelvin', 'kelvin, delta_degF', 'delta_degC, delta_degF', "
                         "'degR, kelvin -> 118/82 degR']" + mode_note, w, L.units, sc)
        if sl == OFF and sr == DELTA:
            w = x + sign * c(ur.a / ul.a) * y
            return value(f"ADD-off{op}delta: offset +- delta stays offset (left unit), delta scaled [NM '25.4 degC +- "
                         "10 delta_degC -> 35.4/15.4 degC'; TQ rows 'degC, delta_degF -> 105.56/94.44 degC', "
                         "'degF, delta_degC -> 118/82 degF']" + mode_note, w, L.units, sc)
        if sl == DELTA and sr == OFF:
            w = c(ul.a / ur.a) * x + sign * y
            return value(f"ADD-delta{op}off: result in the RIGHT (offset) unit, delta scaled [TQ rows 'delta_degC, "
                         "degF -> 190/170 degF', 'delta_degF, degC -> 65.56/45.56 degC']" + mode_note,
                         w, R.units, sc)
        # at least one OFF, the other OFF or ABS
        if op == "+":
            return raises("ADD-ambiguous: offset + offset, offset + absolute, absolute + offset raise "
                          "OffsetUnitCalculusError [NM '10 degC + heating_rate*30 min' and '10 degC + 100 degC' "
                          "paragraph; TQ additions rows marked error]" + mode_note, E_OFFSET)
        conv = (c(ur.a) * y + c(ur.b - ul.b)) / c(ul.a)        # y expressed in the left unit (affine)
        w = x - conv
        if sl == OFF:
            return value("SUB-off-x: offset - offset/absolute is a DELTA of the left unit, right operand "
                         "converted by the affine map [NM '25.4 degC - 10 degC -> 15.4 delta_degC'; TQ subtractions "
                         "rows 'degC, kelvin -> 363.15 delta_degC', 'degC, degF -> 112.22 delta_degC', "
                         "'degF, degR -> 549.67 delta_degF']" + mode_note, w, {"delta_" + ul.name: 1}, sc)
        return value("SUB-abs-off: absolute - offset stays in the left absolute unit, right operand converted "
                     "by the affine map [TQ subtractions rows 'kelvin, degC -> -183.15 kelvin', "
                     "'degR, degF -> -369.67 degR']" + mode_note, w, L.units, sc)

    # -- multiplication / division -----------------------------------------
    def muldiv(self, op: str, L, R, autoconvert: bool) -> Expect:
        return self._use(self._muldiv(op, L, R, autoconvert))

    def _muldiv(self, op, L, R, auto):
        sl, sr = self.shape(L), self.shape(R)
        e = 1 if op == "*" else -1
        nonm = (OFF, LOG)
        comp = (COFF, CLOG, MANY)
        plain = (ABS, DELTA, MULTC, DLESS, MULT)
        if sl == NUM and sr == NUM:
            return unspecified("number op number")
        # ---- number operands
        if sr == NUM or sl == NUM:
            q, n, s = (L, R, sl) if sr == NUM else (R, L, sr)
            qleft = sr == NUM
            if s in plain:
                if qleft:
                    return value("MUL-plain-number: ordinary [TQ multiplications_with_scalar rows 'kelvin', "
                                 "'kelvin**2'; divisions_with_scalar rows 1-2]",
                                 q.x * n if op == "*" else _div(q.x, n), q.units)
                if op == "*":
                    return value("MUL-plain-number: ordinary [TQ multiplications_with_scalar]", n * q.x, q.units)
                return value("DIV-number-plain: n / q has reciprocal units [TQ divisions_with_scalar row "
                             "'2, (10, kelvin) -> 0.2 1/kelvin']", _div(n, q.x), upow(q.units, -1))
            if s in comp:
                if s == COFF or not auto:
                    return raises("MUL-compound-number: an offset unit with exponent != 1 or next to other units "
                                  "cannot be multiplied or divided by a number in either mode [TQ "
                                  "multiplications_with_scalar rows '1/degC', 'degC**0.5', 'degC**2', 'degC**-2'; "
                                  "divisions_with_scalar rows 'degC**2', 'degC**-2' both orders]", E_OFFSET)
                return unspecified(f"{op} compound-log with number, autoconvert")
            # single OFF / LOG with a number
            if not auto:
                return raises("MUL-nonauto: without autoconvert every product/quotient with an offset (log) unit "
                              "raises [NM '25.4 * ureg.degC -> OffsetUnitCalculusError', '1/T' after switching "
                              "the flag off; TQ divisions_with_scalar rows 'degC' column 1; TL 'Using "
                              "multiplications for dB units requires autoconversion']", E_OFFSET)
            if op == "*":
                return value("MUL-auto-number: with autoconvert a single offset (log) unit of order +1 times a "
                             "number or ndarray keeps its unit [NM autoconvert bullet 1 '25.4 * ureg.degC'; TQ "
                             "multiplications_with_scalar row 'degC'; LU '20.0 * ureg.dBm']",
                             q.x * n, q.units)
            if qleft:
                if s == OFF:
                    return raises("DIV-off-number: offset / number raises in BOTH modes [TQ divisions_with_scalar "
                                  "row '((10, degC), 2) -> error, error'] (NM's sentence 'all divisions ... "
                                  "convert to base unit' is less specific; the test row wins)", E_OFFSET)
                return unspecified("LOG / number, autoconvert")
            rv = self.root_value(q)
            return value("DIV-number-off-auto: n / offset converts the offset quantity to base units first [NM "
                         "'1/T -> 0.0033495 1/kelvin'; TQ divisions_with_scalar row '(2, (10, degC)) -> "
                         "2/283.15 1/kelvin']", _div(n, rv), upow(self.single(q).root, -1))
        # ---- quantity op quantity
        if sl in comp or sr in comp:
            if not auto:
                return raises("MUL-nonauto-compound: by default any product/quotient involving an offset unit "
                              "raises [NM 'Pint will by default raise an error when a quantity with offset unit "
                              "is used in these operations']", E_OFFSET)
            return unspecified(f"{op} {sl} {sr} autoconvert")
        if sl not in nonm and sr not in nonm:
            x = L.x * R.x if op == "*" else _div(L.x, R.x)
            return value("MUL-plain: absolute and delta units are multiplicative [NM 'Quantities with delta "
                         "units are multiplicative'; TQ multiplications/divisions rows without error, e.g. "
                         "'kelvin, degR -> 1000 kelvin*degR', 'delta_degC, delta_degC -> 10 \"\"']",
                         x, umul(L.units, R.units, e))
        if not auto:
            return raises("MUL-nonauto: product/quotient with an offset (log) operand raises without autoconvert "
                          "[NM 'multiplication, division and exponentiation ... will by default raise'; TQ "
                          "multiplications/divisions rows marked error; TL test_mix_regular_log_units]", E_OFFSET)
        if LOG in (sl, sr) and (sl in nonm and sr in nonm):
            return unspecified(f"{op} {sl} {sr} autoconvert (two non-multiplicative operands, one logarithmic)")
        lx, lu = (self.root_value(L), self.single(L).root) if sl in nonm else (L.x, L.units)
        rx, ru = (self.root_value(R), self.single(R).root) if sr in nonm else (R.x, R.units)
        x = lx * rx if op == "*" else _div(lx, rx)
        return value("MUL-auto: with autoconvert every offset (log) operand is converted to base units first, the "
                     "other operand keeps its units [NM 'T * 10 * ureg.meter -> 527.15 kelvin*meter', 'before all "
                     "other multiplications, all divisions'; TQ multiplications_with_autoconvert_to_baseunit all "
                     "rows; LU noise_density example; TL '-10 dB / cm == 0.1 / cm']",
                     x, umul(lu, ru, e))

    # -- power ----------------------------------------------------------------
    def power(self, L, E, autoconvert: bool) -> Expect:
        return self._use(self._power(L, E, autoconvert))

    def _power(self, L, E, auto):
        sl, se = self.shape(L), self.shape(E)
        if sl == NUM:
            if se == NUM:
                return unspecified("number ** number")
            if self.dims(E):
                return raises("POW-number-dimensional: number ** dimensional quantity raises [TQ exponentiation "
                              "row '(2, (2, kelvin)) -> error, error']", E_DIM, E_OFFSET)
            if se in (DLESS, MULTC, ABS, MULT):
                return Expect("value", "POW-number-dimensionless: number ** dimensionless quantity is a number [TQ "
                              "exponentiation rows '(2, (500, millikelvin/kelvin)) -> 2**0.5']",
                              x=_pow(L, self.root_value(E)), units=None)
            return unspecified(f"number ** {se}")
        # exponent
        if se == NUM:
            e = E
        else:
            if self.dims(E):
                return raises("POW-dimensional-exponent: the exponent must be dimensionless [TQ exponentiation row "
                              "'((10, degC), (10, degK)) -> error, error']", E_DIM, E_OFFSET)
            if se not in (DLESS, MULTC, ABS, MULT):
                return unspecified(f"{sl} ** {se}")
            e = self.root_value(E)
        if is_array(e):
            return unspecified("array exponent")
        if sl in (COFF, CLOG, MANY):
            return unspecified(f"{sl} ** e")
        if e == 1:
            return value("POW-one: exponent +1 leaves the quantity unchanged in both modes [NM footnote f1; TQ "
                         "exponentiation row '((10, degC), 1) -> (10, degC), (10, degC)']", L.x, L.units)
        if sl not in (OFF, LOG):
            if e == 0:
                return value("POW-zero: [TQ exponentiation row '((10, degC), 0) -> (1.0, \"\")' applied to a "
                             "multiplicative unit]", _pow(L.x, 0), {})
            return value("POW-plain: ordinary power of a multiplicative unit [TQ exponentiation row '((10, kelvin), "
                         "(2, \"\")) -> 100 kelvin**2']", _pow(L.x, e), upow(L.units, e))
        if sl == LOG:
            if not auto and e != 0:
                return raises("POW-nonauto: exponentiation of a non-multiplicative unit raises without "
                              "autoconvert [NM 'multiplication, division and exponentiation'; LU 'behave much "
                              "like those described in nonmult']", E_OFFSET)
            return unspecified("LOG ** e")
        if e == 0:
            return value("POW-zero: exponent 0 gives dimensionless 1 in both modes [TQ exponentiation row "
                         "'((10, degC), 0) -> (1.0, \"\"), (1.0, \"\")']", _pow(L.x, 0), {})
        if not auto:
            return raises("POW-nonauto: offset ** e (e not in {0, 1}) raises without autoconvert [TQ exponentiation "
                          "rows 0.5, -1, -2, (2, \"\") column 1; NM 'exponentiation ... will by default raise']",
                          E_OFFSET, E_DIM)
        rv = self.root_value(L)
        return value("POW-auto: with autoconvert the offset quantity is converted to base units, then raised [TQ "
                     "exponentiation rows column 2: '283.15**0.5 kelvin**0.5', '1/283.15**2 kelvin**-2', "
                     "'(0, degC), -2 -> 1/273.15**2', '(2, \"\") -> 283.15**2 kelvin**2', 'millikelvin/kelvin']",
                     _pow(rv, e), upow(self.single(L).root, e))

    # -- comparisons ----------------------------------------------------------
    def compare(self, op: str, L, R, autoconvert: bool) -> Expect:
        return self._use(self._compare(op, L, R, autoconvert))

    def _compare(self, op, L, R, auto):
        sl, sr = self.shape(L), self.shape(R)
        if sl == NUM:
            return unspecified("number on the left of a comparison (reflected by Python)")
        f = {"==": lambda a, b: a == b, "<": lambda a, b: a < b, ">": lambda a, b: a > b}[op]
        if sr == NUM:
            if not _is_zero(R):
                return unspecified(f"{sl} {op} non-zero number")
            if sl in (OFF, LOG) and not self.dims(L):
                return unspecified(f"dimensionless {sl} {op} 0 (pint compares the linear value)")
            if sl == LOG:
                return unspecified("LOG vs 0")
            if sl in (OFF, LOG):
                if not auto:
                    return raises("CMP-zero-nonauto: comparing an offset quantity with bare 0 raises without "
                                  "autoconvert [TZ test_offset_equal_zero, test_offset_gt_zero]", E_OFFSET)
                if sl == LOG:
                    return unspecified("LOG vs 0, autoconvert")
                return boolean("CMP-zero-auto: with autoconvert the base-unit magnitude is compared with 0 [TZ "
                               "test_offset_autoconvert_equal_zero, test_offset_autoconvert_gt_zero]",
                               f(self.root_value(L), 0))
            if sl in (ABS, DELTA, MULT) and self.dims(L):
                return boolean("CMP-zero-plain: a multiplicative quantity compares its magnitude with 0 [TZ "
                               "neighbouring test_gt_zero / test_equal_zero]", f(L.x, 0))
            return unspecified(f"{sl} {op} 0")
        if sr == DLESS and sl in (OFF, ABS, DELTA) and self.dims(L):
            if op == "==":
                return boolean("CMP-dimensionless: offset == Q(0, '') is False [TZ test_offset_equal_zero last "
                               "line]", False if not is_array(L.x) else None)
            return raises("CMP-dimensionless-order: ordering against a dimensionless quantity raises "
                          "DimensionalityError [TZ test_offset_gt_zero last line]", E_DIM)
        if sl in (OFF, ABS) and sr in (OFF, ABS) and (OFF in (sl, sr)):
            if self.dims(L) != self.dims(R):
                if op == "==":
                    return boolean("CMP-dim: quantities of different dimensionality are not equal [C05]", False)
                return raises("CMP-dim-order: ordering across dimensions raises DimensionalityError [C05]", E_DIM)
            a, b = self.root_value(L), self.root_value(R)
            return boolean("CMP-physical: derived from CONV-affine - two temperatures compare by their values under "
                           "the defining maps [NM intro; TO rows '0 degC -> 273.15 kelvin' ...; decided in general "
                           "by C05]", f(a, b))
        return unspecified(f"{sl} {op} {sr}")

    # -- unary ------------------------------------------------------------------
    def unary(self, op, L) -> Expect:
        sl = self.shape(L)
        if sl in (ABS, DELTA, MULTC, DLESS, MULT):
            x = -L.x if op == "neg" else abs(L.x)
            return self._use(value("UNARY-plain: multiplicative units (delta units are multiplicative) "
                                   "[NM 'Quantities with delta units are multiplicative']", x, L.units))
        return self._use(unspecified(f"{op} {sl}"))


# ---------------------------------------------------------------------------
# parse_units rules
# ---------------------------------------------------------------------------
def parse_rule(names_kinds: dict, units: dict, as_delta: bool) -> tuple:
    """-> (expected container dict, rule).  `units` = {canonical name: exponent} as written;
    names_kinds = {canonical name: kind}."""
    many = len(units) > 1
    out = {}
    for n, e in units.items():
        k = names_kinds[n]
        if as_delta and k == OFF and (many or e != 1):
            out["delta_" + n] = e
        else:
            out[n] = e
    rule = ("PARSE: an offset unit in a multiplicative context (other units present or exponent != 1) is read as "
            "its delta_ unit when as_delta (default: registry.default_as_delta) is true, never a lone offset unit "
            "with exponent 1, never an absolute unit [NM \"parse_units('degC/meter') -> delta_degree_Celsius / "
            "meter\", \"parse_units('degC') -> degree_Celsius\", \"as_delta=False -> degree_Celsius / meter\", "
            "\"Q_(10, 'degC/meter') -> 10 delta_degree_Celsius / meter\"; TU test_as_delta kelvin rows; "
            "nonmultiplicative/registry.py docstring of default_as_delta]")
    return out, rule


# ---------------------------------------------------------------------------
def _has_delta(units):
    return any(n.startswith("delta_") for n in units)


def _is_zero(n):
    try:
        if is_array(n):
            return bool((n == 0).all())
        return n == 0
    except Exception:  # noqa: BLE001
        return False


def _f(x):
    if is_array(x):
        return x.astype(float)
    return float(x)


def _exp(x):
    if is_array(x):
        import numpy as np
        return np.exp(x)
    return math.exp(x)


def _log(x):
    if is_array(x):
        import numpy as np
        return np.log(x)
    return math.log(x)


def _mag(x):
    if is_array(x):
        return float(abs(x).max()) if x.size else 0.0
    try:
        return abs(float(x))
    except Exception:  # noqa: BLE001
        return 0.0


def _div(a, b):
    if isinstance(a, int) and isinstance(b, int):
        return F(a, b)
    return a / b


def _pow(x, e):
    if isinstance(e, F) and e.denominator == 1:
        e = int(e)
    if isinstance(e, int) and not is_array(x) and isinstance(x, (F, int)):
        if e < 0:
            return F(1) / (F(x) ** (-e))
        return F(x) ** e
    if is_array(x):
        return x ** float(e)
    return float(x) ** float(e)
