"""Random definition files with ground truth known BY CONSTRUCTION.

The generator never parses anything: every factor, root-unit vector and dimension vector
is computed while the text is being written.  Names are drawn so that every spelling has
exactly one reading (unit spellings start with 'z', prefix spellings with 'x' and contain
no 'z'; no spelling ends in 's'), unless collisions are requested.
"""
from __future__ import annotations

import random
from fractions import Fraction as F

_V = "aeiou"
_C = "bdgklmnrtv"


def _word(rng, first, n):
    w = first
    for i in range(n):
        w += rng.choice(_V if i % 2 == 0 else _C)
    return w


def render_fraction(rng, v: F) -> str:
    """A pure-number expression denoting exactly v."""
    v = F(v)
    d = v.denominator
    dd = d
    for p in (2, 5):
        while dd % p == 0:
            dd //= p
    style = rng.randrange(4)
    if dd == 1 and style != 0:
        # terminating decimal
        k = 0
        while (v * 10 ** k).denominator != 1:
            k += 1
        n = int(v * 10 ** k)
        s = str(abs(n)).rjust(k + 1, "0")
        txt = (s[:-k] + "." + s[-k:]) if k else s
        if style == 2 and k == 0 and n % 1000 == 0 and n:
            z = len(str(abs(n))) - len(str(abs(n)).rstrip("0"))
            txt = f"{abs(n) // 10 ** z}e{z}"
        return ("-" if n < 0 else "") + txt
    if d == 1:
        return str(v.numerator)
    return f"{v.numerator} / {d}"


def _l10(x):
    import math
    x = abs(x)
    return abs(math.log10(x.numerator) - math.log10(x.denominator)) if x else 0.0


class Gen:
    def __init__(self, rng: random.Random, n_dims=None, n_units=None, n_prefixes=None,
                 offsets=1, logs=0, collide=False, neg_rate=0.05):
        self.rng = rng
        self.neg_rate = neg_rate
        self.lines_prefix: list[str] = []
        self.lines_base: list[str] = []
        self.lines_dim: list[str] = []
        self.lines_unit: list[str] = []
        self.units: dict[str, dict] = {}      # canonical -> truth
        self.spell: dict[str, str] = {}
        self.prefixes: dict[str, dict] = {}
        self.pspell: dict[str, str] = {}
        self.dims: list[str] = []
        self.derived_dims: dict[str, dict] = {}
        self._names = set()
        n_dims = n_dims or rng.randint(2, 4)
        n_units = n_units if n_units is not None else rng.randint(5, 25)
        n_prefixes = n_prefixes if n_prefixes is not None else rng.randint(0, 5)
        for i in range(n_dims):
            self._base(i)
        if rng.random() < 0.5:
            self._base(None)  # a dimensionless base unit ( = [] )
        for _ in range(n_prefixes):
            self._prefix()
        for _ in range(rng.randint(0, 3)):
            self._derived_dim()
        for _ in range(n_units):
            self._unit()
        for _ in range(offsets):
            self._offset()

    # ------------------------------------------------------------------
    def _fresh(self, first):
        while True:
            w = _word(self.rng, first, self.rng.randint(2, 5))
            if w not in self._names and not w.endswith("s"):
                self._names.add(w)
                return w

    def _spellings(self, name, first):
        sym = self._fresh(first) if self.rng.random() < 0.6 else None
        al = [self._fresh(first) for _ in range(self.rng.choice((0, 0, 1, 2)))]
        return sym, al

    def _tail(self, sym, al, dash=""):
        if sym is None and not al:
            return ""
        out = " = " + ((sym + dash) if sym else "_")
        for a in al:
            out += " = " + a + dash
        return out

    def _base(self, i):
        name = self._fresh("z")
        sym, al = self._spellings(name, "z")
        if i is None:
            ref, dm = "[]", {}
        else:
            dim = f"[d{_word(self.rng, 'q', 3)}{i}]"
            self.dims.append(dim)
            ref, dm = dim, {dim: F(1)}
        self.lines_base.append(f"{name} = {ref}{self._tail(sym, al)}")
        self._register(name, sym, al, dict(factor=F(1), root={name: F(1)}, dims=dm,
                                            kind="base", is_base=True))

    def _register(self, name, sym, al, truth):
        truth.update(name=name, symbol=sym, aliases=al)
        self.units[name] = truth
        for s in [name] + ([sym] if sym else []) + al:
            self.spell[s] = name

    def _prefix(self):
        name = self._fresh("x")
        sym = self._fresh("x") if self.rng.random() < 0.7 else None
        al = [self._fresh("x") for _ in range(self.rng.choice((0, 0, 1)))]
        val = self.rng.choice([F(10) ** self.rng.randint(-6, 6), F(2) ** self.rng.randint(1, 12),
                               F(self.rng.randint(1, 9), self.rng.randint(1, 9))])
        if val == 1:
            val = F(3)
        self.lines_prefix.append(
            f"{name}- = {render_fraction(self.rng, val)}{self._tail(sym, al, '-')}")
        self.prefixes[name] = dict(value=val, symbol=sym, aliases=al)
        for s in [name] + ([sym] if sym else []) + al:
            self.pspell[s] = name

    def _derived_dim(self):
        if not self.dims:
            return
        name = f"[e{_word(self.rng, 'q', 4)}{len(self.derived_dims)}]"
        pool = self.dims + list(self.derived_dims)
        parts = self.rng.sample(pool, min(len(pool), self.rng.randint(1, 2)))
        ref, txt = {}, []
        for p in parts:
            e = self.rng.choice((-2, -1, 1, 2, 3))
            txt.append((p, e))
            base = self.derived_dims.get(p, {p: F(1)})
            for k, v in base.items():
                ref[k] = ref.get(k, 0) + v * e
        ref = {k: v for k, v in ref.items() if v}
        s = ""
        for j, (p, e) in enumerate(txt):
            term = p if abs(e) == 1 else f"{p} ** {abs(e)}"
            if j == 0:
                s = term if e > 0 else f"1 / {term}"
            else:
                s += (" * " if e > 0 else " / ") + term
        self.derived_dims[name] = ref
        self.lines_dim.append(f"{name} = {s}")

    def ref_spelling(self, canon, allow_prefix=True):
        """A random spelling denoting `canon` (possibly prefixed / plural) -> (text, factor)."""
        u = self.units[canon]
        spells = [canon] + ([u["symbol"]] if u["symbol"] else []) + u["aliases"]
        s = self.rng.choice(spells)
        f = F(1)
        if allow_prefix and self.prefixes and u["kind"] in ("base", "mult") and self.rng.random() < 0.3:
            p = self.rng.choice(list(self.pspell))
            s = p + s
            f = self.prefixes[self.pspell[p]]["value"]
        if self.rng.random() < 0.15 and len(s) > 1:
            s = s + "s"
        return s, f

    def _unit(self):
        name = self._fresh("z")
        sym, al = self._spellings(name, "z")
        mult = [c for c, t in self.units.items() if t["kind"] in ("base", "mult")]
        parts = self.rng.sample(mult, min(len(mult), self.rng.randint(1, 3)))
        scale = self.rng.choice([F(self.rng.randint(1, 999), self.rng.randint(1, 99)),
                                 F(self.rng.randint(1, 9999), 10 ** self.rng.randint(0, 6)),
                                 F(10) ** self.rng.randint(-9, 9), F(self.rng.randint(2, 60))])
        factor, root, dims, txt = scale, {}, {}, render_fraction(self.rng, scale)
        neg = self.rng.random() < self.neg_rate
        if neg:
            factor, txt = -factor, "-" + txt
        stress = _l10(scale)
        for p in parts:
            e = self.rng.choice((-2, -1, 1, 1, 2, 3))
            sp, pf = self.ref_spelling(p)
            t = self.units[p]
            factor *= (pf * t["factor"]) ** e
            # how far a running float product of scale ** exponent over every leaf of the
            # definition chain can wander from 1 (see DESIGN 8.3: float range)
            stress += abs(e) * (_l10(pf) + t.get("stress", 0.0))
            for k, v in t["root"].items():
                root[k] = root.get(k, 0) + v * e
            for k, v in t["dims"].items():
                dims[k] = dims.get(k, 0) + v * e
            term = sp if abs(e) == 1 else f"{sp} {self.rng.choice(('**', '^'))} {abs(e)}"
            txt += (" * " if e > 0 else " / ") + term
        root = {k: v for k, v in root.items() if v}
        dims = {k: v for k, v in dims.items() if v}
        self.lines_unit.append(f"{name} = {txt}{self._tail(sym, al)}")
        self._register(name, sym, al, dict(factor=factor, root=root, dims=dims, kind="mult",
                                            is_base=False, stress=stress))

    def _offset(self):
        mult = [c for c, t in self.units.items() if t["kind"] in ("base", "mult")
                and len(t["root"]) == 1 and list(t["root"].values()) == [1] and t["factor"] > 0]
        if not mult:
            return
        ref = self.rng.choice(mult)
        name = self._fresh("z")
        sym, al = self._spellings(name, "z")
        scale = F(self.rng.randint(1, 20), self.rng.randint(1, 20))
        off = F(self.rng.randint(-5000, 5000), self.rng.choice((1, 2, 4, 5, 8, 10, 100)))
        t = self.units[ref]
        self.lines_unit.append(
            f"{name} = {render_fraction(self.rng, scale)} * {ref}; offset: "
            f"{render_fraction(self.rng, off)}{self._tail(sym, al)}")
        self._register(name, sym, al, dict(factor=scale * t["factor"], root=dict(t["root"]),
                                            dims=dict(t["dims"]), kind="offset", is_base=False,
                                            scale=scale, offset=off, ref=ref,
                                            stress=_l10(scale) + t.get("stress", 0.0)))

    # ------------------------------------------------------------------
    def text(self, rng=None, shuffle=False, layout=0) -> str:
        units = list(self.lines_base) + list(self.lines_unit)
        prefixes = list(self.lines_prefix)
        if shuffle and rng:
            rng.shuffle(units)
            rng.shuffle(prefixes)
        lines = prefixes + units
        if shuffle and rng:
            rng.shuffle(lines)
        lines = lines + list(self.lines_dim) if layout % 2 == 0 else list(self.lines_dim) + lines
        out = []
        for ln in lines:
            if layout >= 2:
                ln = ln.replace(" = ", "=" if layout == 2 else "   =  ")
                if rng and rng.random() < 0.3:
                    out.append("# comment line = not : a definition")
                if rng and rng.random() < 0.2:
                    out.append("")
                if layout == 3:
                    ln = "  " + ln + "   # trailing comment"
            out.append(ln)
        return "\n".join(out) + "\n"

    def mult_units(self):
        return [c for c, t in self.units.items() if t["kind"] in ("base", "mult")]
