"""C16 oracle table: NumPy name -> how to call it, which arguments carry units, and the unit
algebra of the result.

Written from NumPy's reference documentation (numpy 2.x signatures); it does not import or
read pint's behaviour tables.  A *variant* of an entry is one way to call the function (plain,
axis=, where=, initial=, out=, ...).  A variant builds an abstract call: positional/keyword
arguments in which every unit-carrying value is a `QA` placeholder = (role, physical values in
root units).  The check realises the placeholders in concrete units (twice, in different
compatible units), calls the real function on pint Quantities, and compares with
`ref(*args with placeholders replaced by root-unit magnitudes)` and the implied unit.

Roles: X, Y, Z = three different physical dimensions drawn per case; A = plane angle;
D = dimensionless number; H = dimensionless number in any dimensionless unit (angle units
included); the same role letter means "must be mutually compatible".

Result specs:
    U({role: exponent})   quantity whose dimensionality is prod(dim(role)**exponent); an empty
                          dict means "dimensionless value" (bare numbers accepted as well)
    U(..., unit="degree") additionally the unit itself is prescribed by NumPy's documentation
    BARE                  predicate / index / shape result: must not be a Quantity
    Seq([spec, ...])      tuple or list result
    SAME                  in-place call whose target is compared (through a custom inv/ref pair)
homog=False marks functions that are not homogeneous in their unit-carrying arguments
(floor, round, modf, nextafter ...): NumPy is applied to magnitudes expressed in the unit of
the first unit-carrying argument and that unit is attached; the re-expression relation is then
only demanded for the *other* arguments.
"""
from __future__ import annotations

import math

import numpy as np

PI = math.pi

# --------------------------------------------------------------------------------------
# own unit table: family -> (dimensionality, [(unit expression, factor to root units, offset)])
# root units of the bundled registry: gram, meter, second, kelvin, radian, dimensionless.
# physical(root) = (magnitude + offset) * factor
# --------------------------------------------------------------------------------------
FAM = {
    "length": ({"[length]": 1}, [("meter", 1.0, 0.0), ("centimeter", 0.01, 0.0),
                                 ("kilometer", 1000.0, 0.0), ("inch", 0.0254, 0.0),
                                 ("foot", 0.3048, 0.0), ("millimeter", 0.001, 0.0)]),
    "time": ({"[time]": 1}, [("second", 1.0, 0.0), ("millisecond", 0.001, 0.0),
                             ("minute", 60.0, 0.0), ("hour", 3600.0, 0.0)]),
    "mass": ({"[mass]": 1}, [("gram", 1.0, 0.0), ("kilogram", 1000.0, 0.0),
                             ("pound", 453.59237, 0.0), ("milligram", 0.001, 0.0)]),
    "velocity": ({"[length]": 1, "[time]": -1},
                 [("meter / second", 1.0, 0.0), ("kilometer / hour", 1000.0 / 3600.0, 0.0),
                  ("foot / minute", 0.3048 / 60.0, 0.0), ("centimeter / second", 0.01, 0.0)]),
    "force": ({"[mass]": 1, "[length]": 1, "[time]": -2},
              [("gram * meter / second ** 2", 1.0, 0.0), ("newton", 1000.0, 0.0),
               ("kilonewton", 1.0e6, 0.0), ("dyne", 0.01, 0.0)]),
    "angle": ({}, [("radian", 1.0, 0.0), ("degree", PI / 180.0, 0.0), ("turn", 2 * PI, 0.0),
                   ("arcminute", PI / 10800.0, 0.0)]),
    "dimensionless": ({}, [("dimensionless", 1.0, 0.0), ("percent", 0.01, 0.0),
                           ("ppm", 1.0e-6, 0.0)]),
    "temperature": ({"[temperature]": 1}, [("kelvin", 1.0, 0.0), ("degree_Celsius", 1.0, 273.15),
                                           ("degree_Fahrenheit", 5.0 / 9.0, 459.67)]),
}
FAM["dlany"] = ({}, FAM["dimensionless"][1] + FAM["angle"][1])
# atoms that can occur in result units: name -> (factor to root, offset, dimensionality)
ATOM = {}
for _fam, (_dims, _units) in FAM.items():
    for _name, _f, _off in _units:
        if all(ch.isalnum() or ch == "_" for ch in _name):
            ATOM[_name] = (_f, _off, dict(_dims))
ATOM["delta_degree_Celsius"] = (1.0, 0.0, {"[temperature]": 1})
ATOM["delta_degree_Fahrenheit"] = (5.0 / 9.0, 0.0, {"[temperature]": 1})

DIMFAMS = ["length", "time", "mass", "velocity", "force"]
FIXED_ROLE_FAM = {"A": "angle", "D": "dimensionless", "H": "dlany"}


class QA:
    """Unit-carrying placeholder: physical values `base` (root units) in dimension `role`."""

    def __init__(self, role, base, py=False, bare_ok=False, target=False, always_bare=False,
                 as_unit=False):
        self.role = role
        self.base = np.asarray(base, dtype=float)
        self.py = py and self.base.ndim == 0        # pass a Python float magnitude
        self.bare_ok = bare_ok                      # may also be passed as a bare number (D/H)
        self.target = target                        # explicit in-place target
        self.always_bare = always_bare              # dimensionless value always passed bare
        self.as_unit = as_unit                      # passed as the Unit object itself (= 1 unit)

    def __repr__(self):
        return f"QA({self.role},{self.base.shape})"


class Call:
    def __init__(self, *args, **kwargs):
        self.args = list(args)
        self.kwargs = kwargs


C = Call


class U:
    def __init__(self, exps=None, unit=None):
        self.exps = dict(exps or {})
        self.unit = unit


class Seq:
    def __init__(self, items):
        self.items = list(items)


BARE = "bare"
REFUSE = "refuse"    # no single unit fits every slot of the result: the call must not return a value
ANY = "any"          # unit-agnostic by documentation (ones_like ...): magnitude compared only
KX = U({"X": 1})
KY = U({"Y": 1})
DIMLESS = U({})


class V:
    """One way of calling a function."""

    def __init__(self, build, res, ref=None, inv=None, homog=True, err=True, offset=True,
                 assign=None, tol=1e-9, truth=False, meta=True):
        self.meta = meta            # False: no re-expression relation (a Unit operand is not a value)
        self.truth = truth          # decides on "non-zero": frame dependent for offset units
        self.build, self.res, self.ref, self.inv = build, res, ref, inv
        self.homog, self.err, self.offset, self.assign, self.tol = homog, err, offset, assign, tol


class Ent:
    def __init__(self, kind, name, variants):
        self.kind, self.name, self.variants = kind, name, variants


TABLE: dict[tuple[str, str], Ent] = {}


def add(kind, name, **variants):
    TABLE[(kind, name)] = Ent(kind, name, variants)


# --------------------------------------------------------------------------------------
# value generator
# --------------------------------------------------------------------------------------
class G:
    def __init__(self, rng):
        self.r = rng
        self.n = np.random.default_rng(rng.getrandbits(60))
        self._pool = list(range(3, 600))
        rng.shuffle(self._pool)

    def shape(self, lo=0, hi=3, mind=1, maxd=4):
        rank = self.r.randint(lo, hi)
        return tuple(self.r.randint(mind, maxd) for _ in range(rank))

    def pos(self, shape=None, lo=0.5, hi=9.5):
        shape = self.shape() if shape is None else shape
        return self.n.uniform(lo, hi, size=shape)

    def gen(self, shape=None):
        a = self.pos(shape)
        return a * self.n.choice([-1.0, 1.0], size=a.shape, p=[0.35, 0.65])

    def distinct(self, shape=None, signed=False):
        """values mutually well separated across every array drawn from this generator"""
        shape = self.shape() if shape is None else shape
        n = int(np.prod(shape)) if shape else 1
        ks = [self._pool.pop() for _ in range(n)]
        a = np.array(ks, dtype=float).reshape(shape) * 0.25
        if signed:
            a = a * self.n.choice([-1.0, 1.0], size=a.shape, p=[0.3, 0.7])
        return a

    def withnan(self, a, p=0.25):
        a = np.array(a, dtype=float)
        if a.ndim == 0:
            return a
        m = self.n.random(a.shape) < p
        flat = m.reshape(-1)
        flat[0] = False                      # keep at least one number
        a[m] = np.nan
        return a

    def withzero(self, a, p=0.4):
        a = np.array(a, dtype=float)
        m = self.n.random(a.shape) < p
        a[m] = 0.0
        return a

    def mask(self, shape, p=0.6):
        return self.n.random(shape) < p

    def axis(self, shape, neg=True):
        if not shape:
            return None
        ax = self.r.randrange(len(shape))
        if neg and self.r.random() < 0.3:
            ax -= len(shape)
        return ax

    def q(self, role, base, **kw):
        return QA(role, base, **kw)

    def qs(self, role, prof="pos"):
        """scalar quantity (0-d), half the time with a Python float magnitude"""
        v = getattr(self, prof)(())
        return QA(role, v, py=self.r.random() < 0.5)


def qx(g, prof="gen", lo=0, hi=3, role="X", **kw):
    shp = g.shape(lo, hi)
    return QA(role, getattr(g, prof)(shp), **kw)


# --------------------------------------------------------------------------------------
# 1. shape / selection functions: result keeps the unit of the array argument
# --------------------------------------------------------------------------------------
def _perm(g, n):
    p = list(range(n))
    g.r.shuffle(p)
    return p


def _squeezable(g):
    shp = list(g.shape(1, 3, 2, 3))
    shp.insert(g.r.randrange(len(shp) + 1), 1)
    return tuple(shp)


def _newshape(g, shp):
    n = int(np.prod(shp))
    divs = [d for d in range(1, n + 1) if n % d == 0]
    d = g.r.choice(divs)
    return g.r.choice([(n,), (d, n // d), (d, -1), (-1,)])


def _two_axes(g, shp):
    a, b = g.r.sample(range(len(shp)), 2)
    return a, b


add("func", "copy", plain=V(lambda g: C(qx(g)), KX))
add("func", "ravel", plain=V(lambda g: C(qx(g)), KX),
    order=V(lambda g: C(qx(g, lo=2), order="F"), KX))
add("func", "reshape",
    plain=V(lambda g: (lambda a: C(a, _newshape(g, a.base.shape)))(qx(g, lo=1)), KX))
add("func", "resize",
    plain=V(lambda g: C(qx(g, lo=1), (g.r.randint(1, 4), g.r.randint(1, 4))), KX))
add("func", "squeeze", plain=V(lambda g: C(QA("X", g.gen(_squeezable(g)))), KX),
    axis=V(lambda g: (lambda shp: C(QA("X", g.gen(shp)), axis=shp.index(1)))(_squeezable(g)), KX))
add("func", "expand_dims",
    plain=V(lambda g: (lambda a: C(a, g.r.randint(0, a.base.ndim)))(qx(g)), KX))
add("func", "transpose", plain=V(lambda g: C(qx(g)), KX),
    axes=V(lambda g: (lambda a: C(a, _perm(g, a.base.ndim)))(qx(g, lo=2)), KX))
add("func", "swapaxes",
    plain=V(lambda g: (lambda a: C(a, *_two_axes(g, a.base.shape)))(qx(g, lo=2)), KX))
add("func", "moveaxis",
    plain=V(lambda g: (lambda a: C(a, *_two_axes(g, a.base.shape)))(qx(g, lo=2)), KX))
add("func", "rollaxis",
    plain=V(lambda g: (lambda a: C(a, g.r.randrange(a.base.ndim), g.r.randint(0, a.base.ndim)))(
        qx(g, lo=2)), KX))
add("func", "roll", plain=V(lambda g: C(qx(g, lo=1), g.r.randint(-3, 3)), KX),
    axis=V(lambda g: (lambda a: C(a, g.r.randint(-3, 3), axis=g.axis(a.base.shape)))(qx(g, lo=1)), KX))
add("func", "rot90", plain=V(lambda g: C(qx(g, lo=2)), KX),
    k=V(lambda g: C(qx(g, lo=2), k=g.r.randint(-2, 3)), KX))
add("func", "flip", plain=V(lambda g: C(qx(g, lo=1)), KX),
    axis=V(lambda g: (lambda a: C(a, axis=g.axis(a.base.shape)))(qx(g, lo=1)), KX))
add("func", "tile", plain=V(lambda g: C(qx(g), g.r.choice([2, (2, 1), (1, 2, 2)])), KX))
add("func", "broadcast_to",
    plain=V(lambda g: (lambda a: C(a, (g.r.randint(1, 3),) + a.base.shape))(qx(g, hi=2)), KX))
add("func", "diagonal", plain=V(lambda g: C(qx(g, lo=2)), KX),
    offset=V(lambda g: C(qx(g, lo=2), offset=g.r.randint(-1, 1)), KX),
    axes=V(lambda g: (lambda a, ax: C(a, axis1=ax[0], axis2=ax[1]))(
        *(lambda a: (a, _two_axes(g, a.base.shape)))(qx(g, lo=2))), KX))
add("func", "lib.stride_tricks.sliding_window_view",
    plain=V(lambda g: (lambda n: C(QA("X", g.gen((n,))), g.r.randint(1, n)))(g.r.randint(2, 6)), KX),
    axis=V(lambda g: C(QA("X", g.gen((3, 4))), 2, axis=g.r.choice([0, 1])), KX))
add("func", "delete",
    plain=V(lambda g: (lambda a: C(a, g.r.randrange(a.base.size)))(qx(g, lo=1)), KX),
    axis=V(lambda g: (lambda a, ax: C(a, g.r.randrange(a.base.shape[ax]), axis=ax))(
        *(lambda a: (a, g.axis(a.base.shape)))(qx(g, lo=1))), KX))
add("func", "compress",
    plain=V(lambda g: (lambda a: C([bool(b) for b in g.mask((a.base.size,))], a))(qx(g, lo=1)), KX),
    axis=V(lambda g: (lambda a: C([bool(b) for b in g.mask((a.base.shape[0],))], a, axis=0))(
        qx(g, lo=1)), KX))
add("func", "sort", plain=V(lambda g: C(qx(g, "distinct", lo=1)), KX),
    axis=V(lambda g: (lambda a: C(a, axis=g.r.choice([None, g.axis(a.base.shape)])))(
        qx(g, "distinct", lo=1)), KX))
add("func", "trim_zeros",
    plain=V(lambda g: C(QA("X", np.concatenate([np.zeros(g.r.randint(0, 2)), g.pos((3,)),
                                                 np.zeros(g.r.randint(0, 2))]))), KX),
    trim=V(lambda g: C(QA("X", np.concatenate([np.zeros(2), g.pos((3,)), np.zeros(1)])),
                       g.r.choice(["f", "b", "fb"])), KX))


def _atleast_multi(call):
    out = []
    for a in call.args:
        out.append(U({a.role: 1}) if isinstance(a, QA) else BARE)
    return Seq(out)


for _n in ("atleast_1d", "atleast_2d", "atleast_3d"):
    add("func", _n, plain=V(lambda g: C(qx(g)), KX),
        multi=V(lambda g: C(qx(g), qx(g, role="Y")), _atleast_multi, err=False),
        mixed=V(lambda g: C(qx(g), g.gen(g.shape()), qx(g, role="Y")), _atleast_multi, err=False))

# joining: every array must be compatible, result keeps the (common) unit --------------


def _seq(g, n=None, lo=1, hi=2, role="X", axis=0, prof="gen"):
    """n arrays that can be joined along `axis` (all other dims equal)."""
    n = n or g.r.randint(2, 4)
    shp = list(g.shape(max(lo, axis + 1), max(hi, axis + 1)))
    out = []
    for _ in range(n):
        s = list(shp)
        s[axis] = g.r.randint(1, 3)
        out.append(QA(role, getattr(g, prof)(tuple(s))))
    return out


def _seq_same(g, n=None, lo=1, hi=2, role="X"):
    n = n or g.r.randint(2, 4)
    shp = g.shape(lo, hi)
    return [QA(role, g.gen(shp)) for _ in range(n)]


add("func", "concatenate", plain=V(lambda g: C(_seq(g)), KX),
    axis=V(lambda g: C(_seq(g, lo=2, axis=1), axis=1), KX),
    axisnone=V(lambda g: C(_seq(g), axis=None), KX),
    tup=V(lambda g: C(tuple(_seq(g))), KX))
add("func", "stack", plain=V(lambda g: C(_seq_same(g, lo=0)), KX),
    axis=V(lambda g: C(_seq_same(g), axis=-1), KX))
add("func", "hstack", plain=V(lambda g: C(_seq(g, lo=1, hi=1)), KX),
    d2=V(lambda g: C(_seq(g, lo=2, axis=1)), KX))
add("func", "vstack", plain=V(lambda g: C(_seq(g, lo=2)), KX),
    d1=V(lambda g: C(_seq_same(g, lo=1, hi=1)), KX))
add("func", "dstack", plain=V(lambda g: C(_seq_same(g, lo=1, hi=2)), KX))
add("func", "column_stack", plain=V(lambda g: C(_seq_same(g, lo=1, hi=1)), KX))
add("func", "block",
    flat=V(lambda g: C(_seq(g, lo=1, hi=1)), KX),
    nested=V(lambda g: (lambda r, c: C([[QA("X", g.gen((r, c))), QA("X", g.gen((r, 2)))],
                                        [QA("X", g.gen((1, c))), QA("X", g.gen((1, 2)))]]))(
        g.r.randint(1, 3), g.r.randint(1, 3)), KX))


def _bcast_res(call):
    return Seq([U({a.role: 1}) if isinstance(a, QA) else BARE for a in call.args])


add("func", "broadcast_arrays",
    plain=V(lambda g: (lambda shp: C(QA("X", g.gen(shp)), QA("X", g.gen(shp[-1:])),
                                     QA("X", g.gen(()))))(g.shape(1, 3)),
            _bcast_res, err=False))
add("func", "append",
    plain=V(lambda g: C(qx(g, lo=1), qx(g, lo=0, hi=2)), KX),
    axis=V(lambda g: (lambda s: C(s[0], s[1], axis=0))(_seq(g, 2, lo=1, hi=2)), KX))
add("func", "insert",
    plain=V(lambda g: (lambda a: C(a, g.r.randint(0, a.base.size), QA("X", g.gen(()))))(
        qx(g, lo=1)), KX),
    arr=V(lambda g: (lambda a: C(a, [0, 1], QA("X", g.gen((2,)))))(QA("X", g.gen((4,)))), KX),
    axis=V(lambda g: C(QA("X", g.gen((3, 2))), 1, QA("X", g.gen((2,))), axis=0), KX))
add("func", "where",
    xy=V(lambda g: (lambda shp: C(g.mask(shp), QA("X", g.gen(shp)), QA("X", g.gen(shp))))(
        g.shape()), KX),
    bcast=V(lambda g: (lambda shp: C(g.mask(shp), QA("X", g.gen(shp)), QA("X", g.gen(()))))(
        g.shape(1, 3)), KX),
    qcond=V(lambda g: (lambda shp: C(QA("Y", g.withzero(g.gen(shp))), QA("X", g.gen(shp)),
                                     QA("X", g.gen(shp))))(g.shape(1, 2)), KX, offset=False),
    cond_only=V(lambda g: C(QA("X", g.withzero(g.gen(g.shape(1, 3))))), BARE, truth=True))
add("func", "clip",
    both=V(lambda g: C(qx(g, "distinct"), QA("X", np.float64(30.0)), QA("X", np.float64(90.0))), KX),
    arrays=V(lambda g: (lambda shp: C(QA("X", g.distinct(shp)), QA("X", g.distinct(shp) * 0 + 31.3),
                                      QA("X", g.distinct(shp) * 0 + 91.7)))(g.shape(1, 2)), KX),
    minonly=V(lambda g: C(qx(g, "distinct"), QA("X", np.float64(40.1)), None), KX),
    maxonly=V(lambda g: C(qx(g, "distinct"), None, QA("X", np.float64(80.3))), KX))


def _copyto_inv(npmod, dst, src, **kw):
    npmod.copyto(dst, src, **kw)
    return dst


def _copyto_ref(dst, src, **kw):
    d = np.array(dst, dtype=float)
    np.copyto(d, src, **kw)
    return d


add("func", "copyto",
    plain=V(lambda g: (lambda shp: C(QA("X", g.gen(shp), target=True), QA("X", g.gen(shp))))(
        g.shape(1, 3)), KX, ref=_copyto_ref, inv=_copyto_inv),
    where=V(lambda g: (lambda shp: C(QA("X", g.gen(shp), target=True), QA("X", g.gen(shp[-1:])),
                                     where=g.mask(shp)))(g.shape(1, 3)),
            KX, ref=_copyto_ref, inv=_copyto_inv))


def _pad_build(kind):
    def b(g):
        a = qx(g, lo=1, hi=2)
        pw = g.r.randint(1, 2)
        if kind == "const0":
            return C(a, pw)
        if kind == "constq":
            return C(a, pw, constant_values=QA("X", g.gen(())))
        if kind == "consttuple":
            return C(a, pw, mode="constant",
                     constant_values=(QA("X", g.gen(())), QA("X", g.gen(()))))
        if kind == "edge":
            return C(a, pw, mode="edge")
        if kind == "ramp":
            return C(a, pw, mode="linear_ramp", end_values=QA("X", g.gen(())))
        if kind == "reflect":
            return C(QA("X", g.gen((4, 3))), pw, mode="reflect")
        raise KeyError(kind)
    return b


# padding with the default constant 0 means "0 in the array's unit": not offset invariant
add("func", "pad", **{k: V(_pad_build(k), KX, offset=(k != "const0")) for k in
                      ("const0", "constq", "consttuple", "edge", "ramp", "reflect")})
add("func", "nan_to_num",
    plain=V(lambda g: C(QA("X", g.withnan(g.gen(g.shape(1, 3))))), KX, offset=False),
    nanq=V(lambda g: C(QA("X", g.withnan(g.gen(g.shape(1, 3)))), nan=QA("X", g.gen(()))), KX),
    infq=V(lambda g: (lambda a: C(QA("X", a), posinf=QA("X", np.float64(77.0)),
                                  neginf=QA("X", np.float64(-66.0)), nan=QA("X", np.float64(5.0))))(
        np.array([1.5, np.inf, -np.inf, np.nan, -2.5])), KX, offset=False))
# (np.full_like(ndarray, Quantity) does not dispatch to pint: only `a` is a dispatch argument)
add("func", "full_like", qfill=V(lambda g: C(qx(g), QA("Y", g.gen(()))), KY, err=False))
for _n, _chk in (("ones_like", True), ("zeros_like", True), ("empty_like", False)):
    add("func", _n, plain=V(lambda g: C(qx(g)), ANY if _chk else "shape"))
add("func", "linspace",
    plain=V(lambda g: C(QA("X", g.gen(())), QA("X", g.gen(())), g.r.randint(2, 7)), KX),
    arrays=V(lambda g: C(QA("X", g.gen((2,))), QA("X", g.gen((2,))), 4, endpoint=False), KX),
    retstep=V(lambda g: C(QA("X", g.gen(())), QA("X", g.gen(())), 5, retstep=True),
              Seq([KX, KX])))


def _mesh_res(call):
    return Seq([U({a.role: 1}) for a in call.args])


add("func", "meshgrid",
    two=V(lambda g: C(QA("X", g.gen((g.r.randint(1, 4),))), QA("Y", g.gen((g.r.randint(1, 4),)))),
          _mesh_res, err=False),
    three=V(lambda g: C(QA("X", g.gen((2,))), QA("Y", g.gen((3,))), QA("Z", g.gen((2,))),
                        indexing="ij"), _mesh_res, err=False),
    sparse=V(lambda g: C(QA("X", g.gen((3,))), QA("Y", g.gen((2,))), sparse=True),
             _mesh_res, err=False))

# --------------------------------------------------------------------------------------
# 2. reductions and scans
# --------------------------------------------------------------------------------------


def _red(name, exps, prof="gen", where=False, initial=None, ddof=False, out=True, lo=0,
         extra=None, offset=True):
    """variants for a reduction np.<name>(a, axis=..., keepdims=..., where=..., initial=...)"""
    spec = U(exps)
    vs = {}

    def arr(g, lo_=lo):
        return qx(g, prof, lo=lo_)

    vs["plain"] = V(lambda g: C(arr(g)), spec, offset=offset)
    vs["axis"] = V(lambda g: (lambda a: C(a, axis=g.axis(a.base.shape)))(arr(g, max(lo, 1))), spec,
                   offset=offset)
    vs["keepdims"] = V(lambda g: (lambda a: C(a, axis=g.axis(a.base.shape), keepdims=True))(
        arr(g, max(lo, 1))), spec, offset=offset)
    vs["axes"] = V(lambda g: (lambda a: C(a, axis=tuple(sorted(_two_axes(g, a.base.shape)))))(
        arr(g, 2)), spec, offset=offset)
    if where and initial is None:
        vs["where"] = V(lambda g: (lambda a: C(a, axis=g.axis(a.base.shape),
                                               where=g.mask(a.base.shape)))(arr(g, 1)), spec,
                        offset=offset)
    if initial == "q":       # initial takes part in the reduction: same dimension as the data
        vs["initial"] = V(lambda g: C(arr(g), initial=QA("X", getattr(g, prof)(()))), spec,
                          offset=offset)
        vs["where_initial"] = V(
            lambda g: (lambda a: C(a, axis=g.axis(a.base.shape), where=g.mask(a.base.shape),
                                   initial=QA("X", getattr(g, prof)(()))))(arr(g, 1)), spec,
            offset=offset)
    if ddof:
        vs["ddof"] = V(lambda g: C(QA("X", g.gen(g.shape(1, 3, 2, 4))), ddof=1), spec, offset=offset)
    if out:
        def _inv(npmod, a, **kw):
            f = npmod
            for p in name.split("."):
                f = getattr(f, p)
            o = np.empty(np.shape(f(np.asarray(a.magnitude), **kw)))
            r = f(a, out=o, **kw)
            return r
        vs["out_nd"] = V(lambda g: (lambda a: C(a, axis=g.axis(a.base.shape)))(arr(g, 1)), spec,
                         inv=_inv, offset=False)
    if extra:
        vs.update(extra)
    add("func", name, **vs)


for _n in ("sum", "nansum"):
    _red(_n, {"X": 1}, where=True, initial=None,
         prof="gen", extra={"initial": V(lambda g: C(qx(g), initial=QA("X", g.gen(()))), KX),
                            "where": V(lambda g: (lambda a: C(a, where=g.mask(a.base.shape)))(
                                qx(g, lo=1)), KX)})
for _n in ("max", "min", "amax", "amin"):
    _red(_n, {"X": 1}, prof="distinct", initial="q")
for _n in ("nanmax", "nanmin"):
    _red(_n, {"X": 1}, prof="distinct", initial="q",
         extra={"nan": V(lambda g: C(QA("X", g.withnan(g.distinct(g.shape(1, 3))))), KX)})
_red("mean", {"X": 1}, where=True)
_red("nanmean", {"X": 1}, where=True,
     extra={"nan": V(lambda g: C(QA("X", g.withnan(g.gen(g.shape(1, 3))))), KX)})
_red("median", {"X": 1})
_red("nanmedian", {"X": 1},
     extra={"nan": V(lambda g: C(QA("X", g.withnan(g.gen(g.shape(1, 3))))), KX)})
_red("ptp", {"X": 1})
_red("std", {"X": 1}, where=True, ddof=True)
_red("nanstd", {"X": 1}, where=True, ddof=True,
     extra={"nan": V(lambda g: C(QA("X", g.withnan(g.gen(g.shape(1, 3))))), KX)})
_red("var", {"X": 2}, where=True, ddof=True)
_red("nanvar", {"X": 2}, where=True, ddof=True,
     extra={"nan": V(lambda g: C(QA("X", g.withnan(g.gen(g.shape(1, 3))))), U({"X": 2}))})
_red("average", {"X": 1}, out=False, extra={
    "weights": V(lambda g: (lambda a: C(a, weights=g.pos(a.base.shape)))(qx(g, lo=1)), KX),
    "weights_axis": V(lambda g: (lambda a: C(a, axis=0, weights=g.pos(a.base.shape[:1])))(
        qx(g, lo=1)), KX),
    "returned": V(lambda g: (lambda a: C(a, weights=g.pos(a.base.shape), returned=True))(
        qx(g, lo=1)), Seq([KX, DIMLESS]))})
for _n in ("cumsum", "nancumsum"):
    add("func", _n, plain=V(lambda g: C(qx(g)), KX),
        axis=V(lambda g: (lambda a: C(a, axis=g.axis(a.base.shape)))(qx(g, lo=1)), KX),
        **({"nan": V(lambda g: C(QA("X", g.withnan(g.gen(g.shape(1, 2))))), KX)}
           if _n.startswith("nan") else {}))
for _n in ("cumprod", "nancumprod"):
    add("func", _n, plain=V(lambda g: C(qx(g, "pos", role="D")), DIMLESS),
        axis=V(lambda g: (lambda a: C(a, axis=g.axis(a.base.shape)))(qx(g, "pos", lo=1, role="D")),
               DIMLESS))


def _pct(name, q100):
    def qv(g):
        v = g.r.choice([0.1, 0.25, 0.5, 0.9])
        return v * 100 if q100 else v
    nanv = name.startswith("nan")

    def arr(g, lo=0):
        a = g.gen(g.shape(lo, 3))
        return QA("X", g.withnan(a) if nanv else a)
    add("func", name,
        plain=V(lambda g: C(arr(g), qv(g)), KX),
        axis=V(lambda g: (lambda a: C(a, qv(g), axis=g.axis(a.base.shape)))(arr(g, 1)), KX),
        qlist=V(lambda g: C(arr(g), [qv(g), qv(g)]), KX),
        method=V(lambda g: C(arr(g), qv(g), method=g.r.choice(["lower", "higher", "midpoint",
                                                               "nearest"])), KX),
        keepdims=V(lambda g: (lambda a: C(a, qv(g), axis=g.axis(a.base.shape), keepdims=True))(
            arr(g, 1)), KX))


_pct("percentile", True)
_pct("nanpercentile", True)
_pct("quantile", False)
_pct("nanquantile", False)


def _prod_res(name):
    def res(call):
        a = call.args[0].base
        kw = call.kwargs
        axis, where = kw.get("axis"), kw.get("where")
        if where is not None:
            w = np.broadcast_to(where, a.shape)
            cnt = np.sum(w, axis=axis)
            n = int(np.max(cnt))
        elif axis is not None:
            n = a.shape[axis]
        elif name == "nanprod":
            n = int(np.sum(~np.isnan(a)))
        else:
            n = a.size
        e = {"X": n}
        if "initial" in kw and isinstance(kw["initial"], QA):
            e[kw["initial"].role] = e.get(kw["initial"].role, 0) + 1
        return U(e)
    return res


def _uniform_mask(g, shp, axis):
    """mask selecting the same number of elements along `axis` for every output slot"""
    m = np.zeros(shp, dtype=bool)
    k = g.r.randint(1, shp[axis])
    idx = g.r.sample(range(shp[axis]), k)
    sl = [slice(None)] * len(shp)
    sl[axis] = idx
    m[tuple(sl)] = True
    return m


def _ragged_mask(g, shp, axis, with_zero):
    """2-D mask whose output slots multiply DIFFERENT numbers of elements (at least two distinct non-zero
    counts; with_zero: one slot selects nothing)"""
    other = 1 - axis
    n, slots = shp[axis], shp[other]
    counts = [1, 2] + ([0] if with_zero else []) + [g.r.randint(0, n) for _ in range(slots)]
    counts = counts[:slots]
    g.r.shuffle(counts)
    m = np.zeros(shp, dtype=bool)
    for j, c in enumerate(counts):
        idx = g.r.sample(range(n), c)
        for i in idx:
            m[(i, j) if axis == 0 else (j, i)] = True
    return m


def _ragged_call(g, role):
    axis = g.r.randrange(2)
    shp = [0, 0]
    shp[axis], shp[1 - axis] = g.r.randint(2, 4), g.r.randint(3, 5)
    a = QA(role, g.pos(tuple(shp)))
    return C(a, axis=axis, where=_ragged_mask(g, tuple(shp), axis, g.r.random() < 0.7))


for _n in ("prod", "nanprod"):
    add("func", _n,
        # slots that multiply different numbers of elements: a dimensional array has no single result unit
        # (the call must refuse), a dimensionless one (percent, ppm ...) gives plain numbers
        where_ragged=V(lambda g: _ragged_call(g, "X"), REFUSE, err=False),
        where_ragged_dimensionless=V(lambda g: _ragged_call(g, "H"), DIMLESS, err=False),
        plain=V(lambda g: C(qx(g, "pos", hi=2)), _prod_res(_n)),
        axis=V(lambda g: (lambda a: C(a, axis=g.axis(a.base.shape)))(qx(g, "pos", lo=1, hi=2)),
               _prod_res(_n)),
        keepdims=V(lambda g: (lambda a: C(a, axis=g.axis(a.base.shape, neg=False), keepdims=True))(
            qx(g, "pos", lo=1, hi=2)), _prod_res(_n)),
        where=V(lambda g: (lambda a, ax: C(a, axis=ax, where=_uniform_mask(g, a.base.shape, ax)))(
            *(lambda a: (a, g.axis(a.base.shape, neg=False)))(qx(g, "pos", lo=1, hi=2))),
            _prod_res(_n)),
        initial_bare=V(lambda g: C(qx(g, "pos", hi=2), initial=2.0), _prod_res(_n)),
        **({"nan": V(lambda g: C(QA("X", g.withnan(g.pos(g.shape(1, 2))))), _prod_res(_n))}
           if _n == "nanprod" else {}))

add("func", "linalg.norm",
    plain=V(lambda g: C(qx(g, lo=1, hi=2)), KX),
    ord=V(lambda g: C(QA("X", g.gen((g.r.randint(1, 5),))), g.r.choice([1, 2, 3, np.inf, -np.inf])), KX),
    mat=V(lambda g: C(QA("X", g.gen((3, 3))), g.r.choice(["fro", "nuc", 1, 2, np.inf])), KX),
    axis=V(lambda g: (lambda a: C(a, axis=g.axis(a.base.shape), keepdims=g.r.random() < 0.5))(
        qx(g, lo=1, hi=3)), KX))

for _n in ("all", "any"):
    add("func", _n,
        plain=V(lambda g: C(QA("X", g.withzero(g.gen(g.shape()), 0.3))), BARE, truth=True),
        axis=V(lambda g: (lambda a: C(a, axis=g.axis(a.base.shape)))(
            QA("X", g.withzero(g.gen(g.shape(1, 3)), 0.5))), BARE, truth=True))
add("func", "count_nonzero",
    plain=V(lambda g: C(QA("X", g.withzero(g.gen(g.shape())))), BARE, truth=True),
    axis=V(lambda g: (lambda a: C(a, axis=g.axis(a.base.shape)))(
        QA("X", g.withzero(g.gen(g.shape(1, 3))))), BARE, truth=True))
add("func", "nonzero", plain=V(lambda g: C(QA("X", g.withzero(g.gen(g.shape(1, 3))))), BARE,
                               truth=True))
for _n in ("argmax", "argmin", "nanargmax", "nanargmin"):
    add("func", _n,
        plain=V(lambda g: C(qx(g, "distinct", lo=1)), BARE),
        axis=V(lambda g: (lambda a: C(a, axis=g.axis(a.base.shape)))(qx(g, "distinct", lo=1)), BARE))
add("func", "argsort", plain=V(lambda g: C(qx(g, "distinct", lo=1)), BARE),
    axis=V(lambda g: (lambda a: C(a, axis=g.axis(a.base.shape)))(qx(g, "distinct", lo=1)), BARE))
for _n in ("ndim", "shape", "size", "isreal", "iscomplex"):
    add("func", _n, plain=V(lambda g: C(qx(g)), BARE))
# (0-d operands take part in NumPy's weak-scalar promotion: only rank >= 1 here)
add("func", "result_type", plain=V(lambda g: C(qx(g, lo=1)), BARE),
    two=V(lambda g: C(qx(g, lo=1), np.float32), BARE))
add("func", "searchsorted",
    plain=V(lambda g: C(QA("X", np.sort(g.distinct((g.r.randint(1, 6),)))),
                        QA("X", g.distinct(g.shape(0, 2)))), BARE),
    side=V(lambda g: C(QA("X", np.sort(g.distinct((5,)))), QA("X", g.distinct(())), side="right"),
           BARE),
    # probes EQUAL to elements of the searched array (same unit on both sides, so the ties are exact): only
    # there does `side` decide the answer
    side_ties=V(lambda g: (lambda a: C(QA("X", a), QA("X", a[[0, 2, 4]].copy()), side="right"))(
        np.sort(g.distinct((5,)))), BARE, assign="same", err=False, offset=False))


def _close_build(with_atol, qatol):
    def b(g):
        shp = g.shape()
        a = g.gen(shp)
        rel = g.n.choice([1e-12, -1e-12, 3e-2, -2e-2], size=a.shape)
        bb = a * (1 + rel)
        kw = {}
        if with_atol:
            kw["atol"] = QA("X", np.float64(1e-10)) if qatol else 0.0
            if qatol:
                kw["atol"].nobare = True    # NumPy's own default atol is a bare number
        return C(QA("X", a), QA("X", bb), **kw)
    return b


def _close_atol_build(g):
    """rtol=0: closeness is decided by atol alone (differences 0.2*atol or 5*atol)"""
    a = g.gen(g.shape())
    d = g.n.choice([0.2e-3, -0.2e-3, 5e-3, -5e-3], size=a.shape)
    at = QA("X", np.float64(1e-3))
    at.nobare = True
    return C(QA("X", a), QA("X", a + d), rtol=0.0, atol=at)


for _n in ("isclose", "allclose"):
    add("func", _n, plain=V(_close_build(False, False), BARE, offset=False),
        atol_rtol0=V(_close_atol_build, BARE, offset=False),
        atol_q=V(_close_build(True, True), BARE, offset=False),
        atol0=V(_close_build(True, False), BARE, offset=False))


# dimensionless values for which value<->percent/ppm conversion is exact in either arithmetic order
_VETTED = np.array([v for v in (0.25 * k for k in range(1, 400))
                    if all((v / f) * f == v and v * (1.0 / f) == v / f and (v / f) / (1.0 / f) == v
                           for f in (0.01, 1e-6))])


def _isin_build(g):
    el = g.distinct(g.shape(1, 2))
    other = g.distinct((3,))
    test = np.concatenate([el.reshape(-1)[: g.r.randint(0, el.size)], other])
    return C(QA("X", el), QA("X", test))


add("func", "isin",
    distinct=V(lambda g: C(QA("X", g.distinct(g.shape(1, 2))), QA("X", g.distinct((4,)))), BARE,
               err=False, offset=False),
    member=V(_isin_build, BARE, err=False, offset=False, assign="same"),
    dl_bare=V(lambda g: (lambda el: C(QA("D", el), QA("D", np.concatenate([el.reshape(-1)[:2], [123.0]]),
                                                     always_bare=True)))(
        g.n.choice(_VETTED, size=g.shape(1, 2), replace=False)), BARE, err=False, offset=False,
        assign="same"),
    invert=V(lambda g: C(QA("X", g.distinct(g.shape(1, 2))), QA("X", g.distinct((4,))),
                         invert=True), BARE, err=False, offset=False),
    seq=V(lambda g: (lambda el: C(QA("X", el), [QA("X", el.reshape(-1)[0]), QA("X", g.distinct(()))]))(
        g.distinct(g.shape(1, 2))), BARE, err=False, offset=False, assign="same"))
add("func", "intersect1d",
    plain=V(lambda g: (lambda a: C(QA("X", a), QA("X", np.concatenate([a[:2], g.distinct((2,))]))))(
        g.distinct((4,))), KX, assign="same", offset=False),
    disjoint=V(lambda g: C(QA("X", g.distinct((4,))), QA("X", g.distinct((3,)))), KX, offset=False))

# --------------------------------------------------------------------------------------
# 3. differences, integration, products
# --------------------------------------------------------------------------------------
add("func", "diff",
    plain=V(lambda g: C(qx(g, lo=1)), KX),
    n=V(lambda g: C(QA("X", g.gen((5,))), n=2), KX),
    axis=V(lambda g: (lambda a: C(a, axis=g.axis(a.base.shape)))(qx(g, lo=1)), KX),
    prepend=V(lambda g: C(QA("X", g.gen((4,))), prepend=QA("X", g.gen(()))), KX),
    append=V(lambda g: C(QA("X", g.gen((4,))), append=QA("X", g.gen((2,)))), KX))
add("func", "ediff1d",
    plain=V(lambda g: C(qx(g, lo=1)), KX),
    to_end=V(lambda g: C(QA("X", g.gen((4,))), to_end=QA("X", g.gen(()))), KX),
    to_begin=V(lambda g: C(QA("X", g.gen((4,))), to_begin=QA("X", g.gen((2,)))), KX))


def _grad_res(call):
    f = call.args[0]
    sp = call.args[1:]
    nd = f.base.ndim
    axis = call.kwargs.get("axis")
    if axis is None:
        axes = list(range(nd))
    elif isinstance(axis, int):
        axes = [axis]
    else:
        axes = list(axis)
    out = []
    for i, _ in enumerate(axes):
        if not sp:
            out.append(U({"X": 1}))
            continue
        s = sp[0] if len(sp) == 1 else sp[i]
        e = {"X": 1}
        if isinstance(s, QA):
            e[s.role] = e.get(s.role, 0) - 1
        out.append(U(e))
    return out[0] if len(out) == 1 else Seq(out)


def _coords(g, n):
    return np.cumsum(g.pos((n,), 0.5, 2.0))


add("func", "gradient",
    plain=V(lambda g: C(QA("X", g.gen(g.shape(1, 2, 2, 4)))), _grad_res),
    scalar=V(lambda g: C(QA("X", g.gen(g.shape(1, 2, 2, 4))), QA("Y", g.pos(()))), _grad_res),
    coords=V(lambda g: (lambda n: C(QA("X", g.gen((n,))), QA("Y", _coords(g, n))))(g.r.randint(2, 5)),
             _grad_res),
    per_axis_same=V(lambda g: C(QA("X", g.gen((3, 4))), QA("Y", g.pos(())), QA("Y", g.pos(()))),
                    _grad_res, err=False),
    per_axis=V(lambda g: C(QA("X", g.gen((3, 4))), QA("Y", g.pos(())), QA("Z", g.pos(()))),
               _grad_res, err=False),
    axis=V(lambda g: C(QA("X", g.gen((3, 4))), QA("Y", g.pos(())), axis=g.r.choice([0, 1])),
           _grad_res),
    edge2=V(lambda g: C(QA("X", g.gen((5,))), QA("Y", g.pos(())), edge_order=2), _grad_res))


def _trap_res(call):
    e = {"X": 1}
    x = call.kwargs.get("x", call.args[1] if len(call.args) > 1 else None)
    dx = call.kwargs.get("dx")
    for s in (x, dx):
        if isinstance(s, QA):
            e[s.role] = e.get(s.role, 0) + 1
    return U(e)


for _n in ("trapezoid", "trapz"):
    add("func", _n,
        plain=V(lambda g: C(qx(g, lo=1)), _trap_res),
        x=V(lambda g: (lambda n: C(QA("X", g.gen((n,))), QA("Y", _coords(g, n))))(g.r.randint(2, 5)),
            _trap_res),
        xkw=V(lambda g: (lambda n: C(QA("X", g.gen((2, n))), x=QA("Y", _coords(g, n))))(
            g.r.randint(2, 5)), _trap_res),
        dx=V(lambda g: C(qx(g, lo=1), dx=QA("Y", g.pos(()))), _trap_res),
        dx_bare=V(lambda g: C(qx(g, lo=1), dx=2.5), _trap_res),
        # unit-less, non-uniform sample points next to a quantity integrand
        x_bare=V(lambda g: (lambda n: C(QA("X", g.gen((n,))), _coords(g, n)))(g.r.randint(2, 5)), _trap_res),
        xkw_bare=V(lambda g: (lambda n: C(QA("X", g.gen((2, n))), x=_coords(g, n)))(g.r.randint(2, 5)),
                   _trap_res),
        axis=V(lambda g: C(QA("X", g.gen((3, 4))), dx=QA("Y", g.pos(())), axis=0), _trap_res))

XY = U({"X": 1, "Y": 1})
add("func", "dot",
    vec=V(lambda g: (lambda n: C(QA("X", g.gen((n,))), QA("Y", g.gen((n,)))))(g.r.randint(1, 4)), XY),
    mat=V(lambda g: (lambda n: C(QA("X", g.gen((2, n))), QA("Y", g.gen((n, 3)))))(g.r.randint(1, 4)), XY),
    bare=V(lambda g: (lambda n: C(QA("X", g.gen((n,))), g.gen((n,))))(g.r.randint(1, 4)), KX),
    same=V(lambda g: (lambda n: C(QA("X", g.gen((n,))), QA("X", g.gen((n,)))))(g.r.randint(1, 4)),
           U({"X": 2}), err=False))
add("func", "cross",
    plain=V(lambda g: (lambda shp: C(QA("X", g.gen(shp + (3,))), QA("Y", g.gen(shp + (3,)))))(
        g.shape(0, 1)), XY),
    bare=V(lambda g: C(QA("X", g.gen((3,))), g.gen((3,))), KX))
add("func", "correlate",
    plain=V(lambda g: C(QA("X", g.gen((g.r.randint(3, 6),))), QA("Y", g.gen((g.r.randint(1, 3),)))), XY),
    mode=V(lambda g: C(QA("X", g.gen((5,))), QA("Y", g.gen((3,))), mode=g.r.choice(["same", "full"])), XY))
add("func", "einsum",
    matmul=V(lambda g: C("ij,jk->ik", QA("X", g.gen((2, 3))), QA("Y", g.gen((3, 2)))), XY),
    trace=V(lambda g: C("ii", QA("X", g.gen((3, 3)))), KX),
    outer3=V(lambda g: C("i,j,k->ijk", QA("X", g.gen((2,))), QA("Y", g.gen((3,))),
                         QA("Z", g.gen((2,)))), U({"X": 1, "Y": 1, "Z": 1})),
    withbare=V(lambda g: C("i,i->i", QA("X", g.gen((3,))), g.gen((3,))), KX))


def _wellcond(g, n):
    return g.gen((n, n)) * 0.1 + np.eye(n) * g.r.choice([4.0, -5.0, 6.0])


add("func", "linalg.solve",
    vec=V(lambda g: (lambda n: C(QA("X", _wellcond(g, n)), QA("Y", g.gen((n,)))))(g.r.randint(1, 4)),
          U({"Y": 1, "X": -1})),
    mat=V(lambda g: (lambda n: C(QA("X", _wellcond(g, n)), QA("Y", g.gen((n, 2)))))(g.r.randint(1, 4)),
          U({"Y": 1, "X": -1})),
    bare_b=V(lambda g: (lambda n: C(QA("X", _wellcond(g, n)), g.gen((n,))))(g.r.randint(1, 4)),
             U({"X": -1})),
    # unit-less coefficient matrix, right-hand side with units: the solution carries b's unit
    bare_a=V(lambda g: (lambda n: C(_wellcond(g, n), QA("Y", g.gen((n,)))))(g.r.randint(1, 4)),
             U({"Y": 1})),
    bare_a_mat=V(lambda g: (lambda n: C(_wellcond(g, n), QA("Y", g.gen((n, 2)))))(g.r.randint(1, 4)),
                 U({"Y": 1})))
add("func", "interp",
    plain=V(lambda g: (lambda n: C(QA("X", g.pos(g.shape(0, 2), 1.0, 9.0)),
                                   QA("X", np.linspace(0.5, 9.5, n)), QA("Y", g.gen((n,)))))(
        g.r.randint(2, 6)), KY),
    leftright=V(lambda g: C(QA("X", g.pos((4,), -3.0, 14.0) + 0.01), QA("X", np.linspace(1.0, 9.0, 4)),
                            QA("Y", g.gen((4,))), left=QA("Y", g.gen(())), right=QA("Y", g.gen(()))),
                KY),
    period=V(lambda g: C(QA("X", g.pos((4,), -9.0, 19.0)), QA("X", np.array([0.5, 2.0, 3.5, 5.5])),
                         QA("Y", g.gen((4,))), period=QA("X", np.float64(7.0))), KY, offset=False),
    bare_fp=V(lambda g: C(QA("X", g.pos((3,), 1.0, 9.0)), QA("X", np.linspace(0.5, 9.5, 4)),
                          g.gen((4,))), DIMLESS))
add("func", "unwrap",
    plain=V(lambda g: C(QA("A", np.cumsum(g.gen((6,)) * 0.45) % (2 * PI))), DIMLESS,
            offset=False),
    axis=V(lambda g: C(QA("A", np.cumsum(g.gen((3, 5)) * 0.45, axis=1) % (2 * PI)), axis=1),
           DIMLESS, offset=False))

# --------------------------------------------------------------------------------------
# 4. rounding (not homogeneous: evaluated in the unit of the first argument)
# --------------------------------------------------------------------------------------
for _n in ("around", "round"):
    add("func", _n, plain=V(lambda g: C(qx(g)), KX, homog=False, offset=False),
        decimals=V(lambda g: C(qx(g), g.r.choice([1, 2, -1])), KX, homog=False, offset=False))
add("func", "fix", plain=V(lambda g: C(qx(g)), KX, homog=False, offset=False))

# --------------------------------------------------------------------------------------
# 5. ufuncs
# --------------------------------------------------------------------------------------


def _bin_shapes(g):
    shp = g.shape()
    mode = g.r.random()
    if mode < 0.6 or not shp:
        return shp, shp
    if mode < 0.8:
        return shp, ()
    return shp, shp[-1:]


def _un(name, role, prof, res, homog=True, offset=True, err=True, kind="ufunc"):
    def outnd_inv(npmod, a, **kw):
        o = np.empty(np.shape(a.magnitude))
        return getattr(npmod, name)(a, out=o, **kw)
    vs = {"plain": V(lambda g: C(qx(g, prof, role=role)), res, homog=homog, offset=offset, err=err)}
    if res is BARE or res is DIMLESS:
        # a bare `out` array can hold a unit-free result
        vs["out_nd"] = V(lambda g: C(qx(g, prof, role=role, lo=1)), res, homog=homog, offset=False,
                         err=False, inv=outnd_inv)
    add(kind, name, **vs)


def _bin(name, ra, rb, res, prof="gen", homog=True, offset=True, err=True, extra=None, sep=False):
    def b(g):
        sa, sb = _bin_shapes(g)
        p = "distinct" if sep else prof
        return C(QA(ra, getattr(g, p)(sa)), QA(rb, getattr(g, p)(sb)))

    def outnd_inv(npmod, a, b_, **kw):
        o = np.empty(np.broadcast_shapes(np.shape(a.magnitude), np.shape(b_.magnitude)))
        return getattr(npmod, name)(a, b_, out=o, **kw)

    def b_arr(g):
        shp = g.shape(1, 2)
        p = "distinct" if sep else prof
        return C(QA(ra, getattr(g, p)(shp)), QA(rb, getattr(g, p)(shp)))
    vs = {"plain": V(b, res, homog=homog, offset=offset, err=err)}
    if res is BARE or res is DIMLESS:
        def outnd_inv_b(npmod, a, b_, **kw):
            shp = np.broadcast_shapes(np.shape(a.magnitude), np.shape(b_.magnitude))
            o = np.empty(shp, dtype=bool if res is BARE else float)
            return getattr(npmod, name)(a, b_, out=o, **kw)
        vs["out_nd"] = V(b_arr, res, homog=homog, offset=False, err=False, inv=outnd_inv_b)
    if extra:
        vs.update(extra)
    add("ufunc", name, **vs)


# unary minus / abs on an offset unit are frame dependent, but pint's own unary operators accept
# them as well: not probed in offset mode (design choice of the library, not of the NumPy layer)
for _n in ("absolute", "fabs", "negative"):
    _un(_n, "X", "gen", KX, offset=False)
for _n in ("positive", "conj", "conjugate"):
    _un(_n, "X", "gen", KX)
for _n in ("ceil", "floor", "rint", "trunc"):
    _un(_n, "X", "gen", KX, homog=False, offset=False)
_un("sqrt", "X", "pos", U({"X": 0.5}))
_un("cbrt", "X", "gen", U({"X": 1.0 / 3.0}))
_un("square", "X", "gen", U({"X": 2}))
_un("reciprocal", "X", "gen", U({"X": -1}))
def _nonfinite(g):
    a = g.withnan(g.gen(g.shape()))
    if a.ndim:
        a[tuple(0 for _ in a.shape)] = g.r.choice([np.inf, -np.inf, 1.0])
    return C(QA("X", a))


for _n in ("isfinite", "isinf", "isnan"):
    add("ufunc", _n, plain=V(_nonfinite, BARE, offset=False))
add("ufunc", "signbit", plain=V(lambda g: C(qx(g)), BARE, offset=False))
add("ufunc", "sign", plain=V(lambda g: C(QA("X", g.withzero(g.gen(g.shape()), 0.2))), DIMLESS,
                             offset=False))
for _n in ("sin", "cos", "tan"):
    _un(_n, "A", "gen", DIMLESS, offset=False)
for _n in ("sinh", "cosh", "tanh"):
    add("ufunc", _n, plain=V(lambda g: C(QA("H", g.gen(g.shape()) * 0.3, bare_ok=False)), DIMLESS,
                             offset=False))
for _n, _p in (("arcsin", 0.1), ("arccos", 0.1), ("arctan", 1.0), ("arcsinh", 1.0), ("arctanh", 0.1)):
    add("ufunc", _n, plain=V((lambda p: lambda g: C(QA("D", g.gen(g.shape()) * p)))(_p), DIMLESS,
                             offset=False))
add("ufunc", "arccosh", plain=V(lambda g: C(QA("D", g.pos(g.shape(), 1.1, 9.0))), DIMLESS,
                                offset=False))
for _n in ("exp", "exp2", "expm1"):
    add("ufunc", _n, plain=V(lambda g: C(QA("H", g.gen(g.shape()) * 0.5)), DIMLESS, offset=False))
for _n in ("log", "log10", "log2", "log1p"):
    add("ufunc", _n, plain=V(lambda g: C(QA("H", g.pos(g.shape()))), DIMLESS, offset=False))
for _n in ("logaddexp", "logaddexp2"):
    add("ufunc", _n, plain=V(lambda g: (lambda s: C(QA("H", g.gen(s[0])), QA("H", g.gen(s[1]))))(
        _bin_shapes(g)), DIMLESS, offset=False))
# angle conversions: the physical angle is unchanged, the unit is prescribed
_ident = lambda x, **kw: np.asarray(x, dtype=float)   # noqa: E731
for _n, _u in (("degrees", "degree"), ("rad2deg", "degree"), ("radians", "radian"),
               ("deg2rad", "radian")):
    add("ufunc", _n, plain=V(lambda g: C(QA("A", g.gen(g.shape()))), U({}, unit=_u), ref=_ident,
                             offset=False))

def _bare_number_next_to_dimensionless(left):
    """a plain number (as NumPy hands it out: a 0-d value) combined with a dimensionless quantity written in
    any dimensionless unit (percent, ppm ...): the number counts as dimensionless, the unit's scale applies"""
    def b(g):
        s = QA("D", g.gen(()), always_bare=True)
        a = QA("H", g.gen(g.shape()))
        return C(s, a) if left else C(a, s)
    return b


for _n in ("add", "subtract"):
    _bin(_n, "X", "X", KX, extra={
        "bare_number_left": V(_bare_number_next_to_dimensionless(True), DIMLESS, err=False, offset=False),
        "bare_number_right": V(_bare_number_next_to_dimensionless(False), DIMLESS, err=False, offset=False)})
_bin("maximum", "X", "X", KX, sep=True)
_bin("minimum", "X", "X", KX, sep=True)
_bin("hypot", "X", "X", KX)
_bin("copysign", "X", "X", KX, err=False, offset=False)
_bin("nextafter", "X", "X", KX, homog=False, sep=True, offset=False)
_bin("arctan2", "X", "X", DIMLESS)
_bin("multiply", "X", "Y", XY, extra={
    "bare": V(lambda g: C(qx(g), g.gen(())), KX),
    "rbare": V(lambda g: C(g.gen(()), qx(g)), KX),
    "same": V(lambda g: (lambda s: C(QA("X", g.gen(s)), QA("X", g.gen(s))))(g.shape()),
              U({"X": 2}), err=False)})
for _n in ("divide", "true_divide"):
    _bin(_n, "X", "Y", U({"X": 1, "Y": -1}), extra={
        "bare": V(lambda g: C(qx(g), g.gen(())), KX),
        "rbare": V(lambda g: C(g.gen(()), qx(g)), U({"X": -1})),
        "same": V(lambda g: (lambda s: C(QA("X", g.gen(s)), QA("X", g.gen(s))))(g.shape()),
                  DIMLESS, err=False)})
add("ufunc", "matmul",
    plain=V(lambda g: (lambda n: C(QA("X", g.gen((2, n))), QA("Y", g.gen((n, 3)))))(g.r.randint(1, 4)),
            XY),
    vec=V(lambda g: (lambda n: C(QA("X", g.gen((n,))), QA("Y", g.gen((n,)))))(g.r.randint(1, 4)), XY),
    bare=V(lambda g: (lambda n: C(QA("X", g.gen((2, n))), g.gen((n, 2))))(g.r.randint(1, 4)), KX))


def _modpair(g):
    shp = g.shape()
    b = g.pos(shp, 0.5, 3.0) * g.n.choice([-1.0, 1.0], size=shp, p=[0.3, 0.7])
    k = g.n.integers(0, 5, size=shp)
    frac = g.n.uniform(0.15, 0.85, size=shp)
    a = (k + frac) * np.abs(b) * g.n.choice([-1.0, 1.0], size=shp, p=[0.3, 0.7])
    return QA("X", a), QA("X", b)


for _n in ("mod", "remainder", "fmod"):
    add("ufunc", _n, plain=V(lambda g: C(*_modpair(g)), KX, offset=False),
        bare_divisor=V(lambda g: (lambda ab: C(QA("D", ab[0].base), ab[1].base))(_modpair(g)),
                       DIMLESS, offset=False, err=False))
# floor(a/b) of two like quantities is a pure number (5 m // 200 cm == 2)
add("ufunc", "floor_divide", plain=V(lambda g: C(*_modpair(g)), DIMLESS, offset=False, err=False),
    bare=V(lambda g: (lambda ab: C(QA("D", ab[0].base), ab[1].base))(_modpair(g)), DIMLESS,
           offset=False, err=False))
for _n in ("equal", "not_equal", "greater", "greater_equal", "less", "less_equal"):
    _bin(_n, "X", "X", BARE, sep=True, extra={
        "sameunit": V(lambda g: (lambda a: C(QA("X", a), QA("X", np.where(g.mask(a.shape), a, a + 1.0))))(
            g.gen(g.shape(1, 2))), BARE, assign="same")})
add("ufunc", "power",
    int=V(lambda g: (lambda p: C(qx(g, "pos"), p))(g.r.choice([2, 3, -1, -2, 0.5])),
          lambda call: U({"X": call.args[1]})),
    dl=V(lambda g: C(qx(g, "pos", role="D"), QA("D", g.gen(()) * 0.3)), DIMLESS, err=False),
    rpow=V(lambda g: C(2.0, qx(g, "gen", role="D")), DIMLESS))
add("ufunc", "ldexp", plain=V(lambda g: (lambda a: C(a, g.n.integers(-3, 4, size=a.base.shape)))(qx(g)),
                              KX, offset=False))
add("ufunc", "modf", plain=V(lambda g: C(qx(g)), Seq([KX, KX]), homog=False, offset=False))
add("ufunc", "frexp", plain=V(lambda g: C(qx(g)), Seq([KX, BARE]), homog=False, offset=False))

# --------------------------------------------------------------------------------------
# 6. ndarray methods of Quantity (kind "method"; ref = the ndarray method on root magnitudes)
# --------------------------------------------------------------------------------------


def M(name, **variants):
    add("method", name, **variants)


M("copy", plain=V(lambda g: C(qx(g)), KX))
M("flatten", plain=V(lambda g: C(qx(g)), KX), order=V(lambda g: C(qx(g, lo=2), "F"), KX))
M("ravel", plain=V(lambda g: C(qx(g)), KX))
M("astype", plain=V(lambda g: C(qx(g), np.float64), KX),
  f32=V(lambda g: C(qx(g), np.float32), KX, tol=1e-5))
M("item", plain=V(lambda g: C(QA("X", g.gen(())), ), KX),
  idx=V(lambda g: (lambda a: C(a, g.r.randrange(a.base.size)))(qx(g, lo=1)), KX))
M("reshape", plain=V(lambda g: (lambda a: C(a, _newshape(g, a.base.shape)))(qx(g, lo=1)), KX))
M("squeeze", plain=V(lambda g: C(QA("X", g.gen(_squeezable(g)))), KX))
M("swapaxes", plain=V(lambda g: (lambda a: C(a, *_two_axes(g, a.base.shape)))(qx(g, lo=2)), KX))
M("transpose", plain=V(lambda g: C(qx(g)), KX),
  axes=V(lambda g: (lambda a: C(a, *_perm(g, a.base.ndim)))(qx(g, lo=2)), KX))
M("diagonal", plain=V(lambda g: C(qx(g, lo=2)), KX))
M("compress", plain=V(lambda g: (lambda a: C(a, [bool(b) for b in g.mask((a.base.shape[0],))], axis=0))(
    qx(g, lo=1)), KX))
M("repeat", plain=V(lambda g: C(qx(g), g.r.randint(1, 3)), KX),
  axis=V(lambda g: C(qx(g, lo=1), 2, axis=0), KX))
M("take", plain=V(lambda g: (lambda a: C(a, [0, a.base.size - 1]))(qx(g, lo=1)), KX),
  axis=V(lambda g: (lambda a: C(a, [0], axis=g.axis(a.base.shape)))(qx(g, lo=1)), KX))
M("conj", plain=V(lambda g: C(qx(g)), KX))
M("conjugate", plain=V(lambda g: C(qx(g)), KX))
M("round", plain=V(lambda g: C(qx(g)), KX, homog=False, offset=False),
  decimals=V(lambda g: C(qx(g), 1), KX, homog=False, offset=False))
for _n, _e, _prof in (("sum", 1, "gen"), ("mean", 1, "gen"), ("std", 1, "gen"), ("var", 2, "gen"),
                      ("max", 1, "distinct"), ("min", 1, "distinct"), ("trace", 1, "gen")):
    _lo = 2 if _n == "trace" else 0
    M(_n, plain=V((lambda p, lo: lambda g: C(qx(g, p, lo=lo)))(_prof, _lo), U({"X": _e})),
      **({} if _n == "trace" else {
          "axis": V((lambda p: lambda g: (lambda a: C(a, axis=g.axis(a.base.shape)))(qx(g, p, lo=1)))(
              _prof), U({"X": _e})),
          "keepdims": V((lambda p: lambda g: (lambda a: C(a, axis=0, keepdims=True))(qx(g, p, lo=1)))(
              _prof), U({"X": _e}))}))
M("cumsum", plain=V(lambda g: C(qx(g)), KX),
  axis=V(lambda g: (lambda a: C(a, axis=g.axis(a.base.shape)))(qx(g, lo=1)), KX))
M("cumprod", plain=V(lambda g: C(qx(g, "pos", role="D")), DIMLESS))
M("prod", plain=V(lambda g: C(qx(g, "pos", hi=2)), _prod_res("prod")),
  axis=V(lambda g: (lambda a: C(a, axis=g.axis(a.base.shape)))(qx(g, "pos", lo=1, hi=2)),
         _prod_res("prod")))
M("dot", vec=V(lambda g: (lambda n: C(QA("X", g.gen((n,))), QA("Y", g.gen((n,)))))(g.r.randint(1, 4)), XY),
  bare=V(lambda g: (lambda n: C(QA("X", g.gen((n,))), g.gen((n,))))(g.r.randint(1, 4)), KX))
M("clip",
  both=V(lambda g: C(qx(g, "distinct"), QA("X", np.float64(30.0)), QA("X", np.float64(90.0))), KX),
  minonly=V(lambda g: C(qx(g, "distinct"), QA("X", np.float64(40.1))), KX),
  maxkw=V(lambda g: C(qx(g, "distinct"), max=QA("X", np.float64(80.3))), KX))
M("searchsorted",
  plain=V(lambda g: C(QA("X", np.sort(g.distinct((g.r.randint(1, 6),)))),
                      QA("X", g.distinct(g.shape(0, 1)))), BARE),
  side=V(lambda g: C(QA("X", np.sort(g.distinct((5,)))), QA("X", g.distinct(())), "right"), BARE),
  side_ties=V(lambda g: (lambda a: C(QA("X", a), QA("X", a[[0, 2, 4]].copy()), "right"))(
      np.sort(g.distinct((5,)))), BARE, assign="same", err=False, offset=False),
  side_kw_ties=V(lambda g: (lambda a: C(QA("X", a), QA("X", a[[1, 3]].copy()), side="right"))(
      np.sort(g.distinct((5,)))), BARE, assign="same", err=False, offset=False))


def _put_inv(npmod, a, ind, v, **kw):
    a.put(ind, v, **kw)
    return a


def _put_ref(a, ind, v, **kw):
    a = np.array(a, dtype=float)
    a.put(ind, v, **kw)
    return a


def _fill_inv(npmod, a, v):
    a.fill(v)
    return a


def _fill_ref(a, v):
    return np.full(np.shape(a), v, dtype=float)


def _set_inv(npmod, a, key, v):
    a[key] = v
    return a


def _set_ref(a, key, v):
    a = np.array(a, dtype=float)
    a[key] = v
    return a


M("put", plain=V(lambda g: C(QA("X", g.gen((5,)), target=True), [0, 3], QA("X", g.gen((2,)))), KX,
                 inv=_put_inv, ref=_put_ref, offset=False),
  scalar=V(lambda g: C(QA("X", g.gen((2, 3)), target=True), 4, QA("X", g.gen(()))), KX,
           inv=_put_inv, ref=_put_ref, offset=False))
# fill: documented as "fill the array with a scalar value" -> array physically equals value
M("fill", plain=V(lambda g: C(qx(g, lo=1, target=True), QA("X", g.gen(()))), KX,
                  inv=_fill_inv, ref=_fill_ref, err=False, offset=False))
M("__setitem__",
  scalar=V(lambda g: (lambda a: C(a, 0, QA("X", g.gen(()))))(qx(g, lo=1, target=True)), KX,
           inv=_set_inv, ref=_set_ref, offset=False),
  slice=V(lambda g: C(QA("X", g.gen((5,)), target=True), slice(1, 4), QA("X", g.gen((3,)))), KX,
          inv=_set_inv, ref=_set_ref, offset=False),
  mask=V(lambda g: (lambda a: C(a, g.mask(a.base.shape), QA("X", g.gen(()))))(qx(g, lo=1, target=True)),
         KX, inv=_set_inv, ref=_set_ref, offset=False))
M("__getitem__",
  index=V(lambda g: C(qx(g, lo=1), 0), KX, inv=lambda npmod, a, k: a[k], ref=lambda a, k: a[k]),
  slice=V(lambda g: C(QA("X", g.gen((5,))), slice(1, 4)), KX, inv=lambda npmod, a, k: a[k],
          ref=lambda a, k: a[k]))
M("__len__", plain=V(lambda g: C(qx(g, lo=1)), BARE, inv=lambda npmod, a: len(a),
                     ref=lambda a: len(a)))
M("__array__", plain=V(lambda g: C(qx(g, lo=1)), BARE, inv=lambda npmod, a: a.__array__(),
                       ref=lambda a: np.asarray(a), homog=False, offset=False))
for _n in ("real", "imag", "T"):
    add("prop", _n, plain=V(lambda g: C(qx(g)), KX, offset=(_n != "imag")))
add("prop", "shape", plain=V(lambda g: C(qx(g)), BARE))
add("prop", "dtype", plain=V(lambda g: C(qx(g, lo=1)), BARE))
add("prop", "flat", plain=V(lambda g: C(qx(g, lo=1)), KX,
                            inv=lambda npmod, a: a.__class__.from_list(list(a.flat)),
                            ref=lambda a: np.array(list(np.asarray(a).flat))))
# pass-through attribute access (not wrapped, unit-free results) ------------------------
for _n in ("argmax", "argmin", "argsort", "nonzero"):
    add("method", _n, plain=V(lambda g: C(qx(g, "distinct", lo=1)), BARE))


# --------------------------------------------------------------------------------------
# 7. out=<Quantity>: an explicit in-place target; afterwards it must physically hold the result
# --------------------------------------------------------------------------------------


def _outq(fname, nargs, shape_of):
    f = getattr(np, fname)

    def inv(npmod, *args, **kw):
        o = args[-1]
        r = getattr(npmod, fname)(*args[:-1], out=o, **kw)
        return (r, o)

    def ref(*args, **kw):
        r = f(*args[:-1], **kw)
        return (r, r)
    return inv, ref


def _outq_variant(fname, build, res):
    inv, ref = _outq(fname, None, None)
    return V(build, Seq([res, res]), inv=inv, ref=ref, err=False, offset=False)


TABLE[("func", "sum")].variants["out_q"] = _outq_variant(
    "sum", lambda g: C(QA("X", g.gen((3, 2))), QA("X", np.zeros(()), target=True)), KX)
TABLE[("func", "cumsum")].variants["out_q"] = _outq_variant(
    "cumsum", lambda g: C(QA("X", g.gen((4,))), QA("X", np.zeros((4,)), target=True)), KX)
TABLE[("func", "clip")].variants["out_q"] = _outq_variant(
    "clip", lambda g: C(QA("X", g.distinct((4,))), QA("X", np.float64(30.0)), QA("X", np.float64(90.0)),
                        QA("X", np.zeros((4,)), target=True)), KX)
TABLE[("ufunc", "add")].variants["out_q"] = _outq_variant(
    "add", lambda g: C(QA("X", g.gen((3,))), QA("X", g.gen((3,))), QA("X", np.zeros((3,)), target=True)), KX)
TABLE[("ufunc", "maximum")].variants["out_q"] = _outq_variant(
    "maximum", lambda g: C(QA("X", g.distinct((3,))), QA("X", g.distinct((3,))),
                           QA("X", np.zeros((3,)), target=True)), KX)
TABLE[("ufunc", "negative")].variants["out_q"] = _outq_variant(
    "negative", lambda g: C(QA("X", g.gen((3,))), QA("X", np.zeros((3,)), target=True)), KX)


# --------------------------------------------------------------------------------------
# 8. Unit objects as ufunc operands (pint/facets/numpy/unit.py): ndarray * Unit etc.
#    The Unit operand stands for "1 unit": its physical value is the unit's factor.
# --------------------------------------------------------------------------------------


def _unit_variants(fname):
    f = getattr(np, fname)
    sign = 1 if fname == "multiply" else -1
    kw = dict(meta=False, err=False, offset=False)
    inv = lambda npmod, a, b: getattr(npmod, fname)(a, b)   # noqa: E731
    return dict(
        arr_unit=V(lambda g: C(g.gen(g.shape(1, 3)), QA("Y", 1.0, as_unit=True)), U({"Y": sign}),
                   inv=inv, ref=f, **kw),
        unit_arr=V(lambda g: C(QA("Y", 1.0, as_unit=True), g.gen(g.shape(1, 3))), KY,
                   inv=inv, ref=f, **kw),
        q_unit=V(lambda g: C(qx(g, lo=1), QA("Y", 1.0, as_unit=True)), U({"X": 1, "Y": sign}),
                 inv=inv, ref=f, **kw),
        unit_q=V(lambda g: C(QA("Y", 1.0, as_unit=True), qx(g, lo=1)), U({"Y": 1, "X": sign}),
                 inv=inv, ref=f, **kw))


for _n in ("multiply", "divide", "true_divide"):
    add("unit", _n, **_unit_variants(_n))


# --------------------------------------------------------------------------------------
# 9. conversions and arithmetic operators on array quantities (pint/facets/plain/quantity.py:
#    _convert_magnitude, ito, __iadd__/__imul__ ...): only the explicit in-place forms may
#    touch the operand's array; values are decided like everything else
# --------------------------------------------------------------------------------------
import operator as _op


def _ito_inv(npmod, a, u):
    a.ito(u)
    return a


def _iop(opf):
    def inv(npmod, a, b):
        r = opf(a, b)
        return r
    return inv


_same = lambda a, u: np.asarray(a, dtype=float)   # noqa: E731  (conversion keeps the physical value)
add("op", "to", plain=V(lambda g: C(qx(g), QA("X", 1.0, as_unit=True)), KX,
                        inv=lambda npmod, a, u: a.to(u), ref=_same, err=False, offset=False))
add("op", "ito", plain=V(lambda g: C(qx(g, target=True), QA("X", 1.0, as_unit=True)), KX,
                         inv=_ito_inv, ref=_same, err=False, offset=False))
add("op", "m_as", plain=V(lambda g: C(qx(g), QA("X", 1.0, as_unit=True)), BARE,
                          inv=lambda npmod, a, u: a.m_as(u), ref=lambda a, u: np.asarray(a) / u,
                          meta=False, err=False, offset=False))
add("op", "to_root_units", plain=V(lambda g: C(qx(g)), KX, inv=lambda npmod, a: a.to_root_units(),
                                   ref=lambda a: np.asarray(a, dtype=float), offset=False))
for _n, _f, _res in (("add", _op.add, KX), ("sub", _op.sub, KX)):
    add("op", _n, plain=V(lambda g: (lambda s: C(QA("X", g.gen(s[0])), QA("X", g.gen(s[1]))))(
        _bin_shapes(g)), _res, inv=_iop(_f), ref=_f, offset=False))
    add("op", "i" + _n, plain=V(lambda g: (lambda s: C(QA("X", g.gen(s[0]), target=True),
                                                      QA("X", g.gen(s[1]))))(_bin_shapes(g)),
                                _res, inv=_iop(getattr(_op, "i" + _n)), ref=_f, offset=False))
for _n, _f, _e in (("mul", _op.mul, 1), ("truediv", _op.truediv, -1)):
    add("op", _n,
        plain=V(lambda g: (lambda s: C(QA("X", g.gen(s[0])), QA("Y", g.gen(s[1]))))(_bin_shapes(g)),
                U({"X": 1, "Y": _e}), inv=_iop(_f), ref=_f, offset=False),
        scalar=V(lambda g: C(qx(g), float(g.gen(()))), KX, inv=_iop(_f), ref=_f, offset=False))
    add("op", "i" + _n,
        plain=V(lambda g: (lambda s: C(QA("X", g.gen(s[0]), target=True), QA("Y", g.gen(s[1]))))(
            _bin_shapes(g)), U({"X": 1, "Y": _e}), inv=_iop(getattr(_op, "i" + _n)), ref=_f,
            offset=False),
        scalar=V(lambda g: C(qx(g, target=True), float(g.gen(()))), KX,
                 inv=_iop(getattr(_op, "i" + _n)), ref=_f, offset=False))
