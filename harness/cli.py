import argparse
import os
import sys

from harness.core import run_check


def main():
    ap = argparse.ArgumentParser()
    ap.add_argument("pid")
    ap.add_argument("--tier", default=os.environ.get("VERIF_TIER", "quick"),
                    choices=["quick", "thorough"])
    ap.add_argument("--replay")
    ap.add_argument("--seed", type=int, default=int(os.environ.get("VERIF_SEED", "0") or 0))
    a = ap.parse_args()
    sys.exit(run_check(a.pid.upper(), a.tier, a.seed, a.replay))


if __name__ == "__main__":
    main()
