"""Curated table of internationally standardised values (property C20).

Written from the standards themselves, NOT from pint's data files (only unit *names* are
pint's, so the rows can be looked up):
  SI   = BIPM SI brochure, 9th ed. (2019): prefixes, derived units, defining constants,
         non-SI units accepted for use with the SI
  YP59 = international yard and pound agreement of 1 July 1959 (yard = 0.9144 m,
         pound = 0.45359237 kg)
  HB44 = NIST Handbook 44, Appendix C (US customary / survey / avoirdupois / troy /
         apothecaries multiples)
  WMA  = UK Weights and Measures Act 1985 (imperial gallon = 4.54609 L and multiples)
  SP811= NIST SP 811 (2008) Appendix B conversion factors (cal, Btu, mmHg, hp ...)
  CGPM = CGPM resolutions (standard gravity 1901, standard atmosphere 1954, litre 1964)
  IAU  = IAU 2012 B2 (astronomical unit), IAU Julian year
  IEC  = IEC 80000-13 (binary prefixes, byte)
  CODATA22 = CODATA 2022 recommended values (decimal strings as published)

Each row: (pint name, value expression, SI unit expression, standard symbol or None, kind,
source).  `value expression` is pure-number arithmetic read by the harness's own exact
evaluator; PI stands for pi to 60 digits.  kind: 'exact' (== in the Fraction registry),
'pi' (involves pi: 1e-45 relative in Fraction, few ulp in float), 'codata' (literal in the
file: exact match of the published digits), 'derived' (computed by pint from other
constants: relative tolerance given by CODATA's own uncertainty, 2e-9).
"""

PI = "3.14159265358979323846264338327950288419716939937510582097494"

LB = "0.45359237"
G0 = "9.80665"
IN = "0.0254"
FT = "0.3048"
YD = "0.9144"
SFT = "(1200/3937)"
GAL = f"(231*{IN}**3)"
IGAL = "0.00454609"
BU = f"(2150.42*{IN}**3)"
GR = "0.00006479891"
LBF = f"({LB}*{G0})"
E = "1.602176634e-19"
H = "6.62607015e-34"
K = "1.380649e-23"
NA = "6.02214076e23"
C = "299792458"

ROWS = [
    # ---- length ------------------------------------------------------------------
    ("inch", IN, "meter", "in", "exact", "YP59"),
    ("foot", FT, "meter", "ft", "exact", "YP59"),
    ("yard", YD, "meter", "yd", "exact", "YP59"),
    ("mile", "1609.344", "meter", "mi", "exact", "YP59"),
    ("thou", "0.0000254", "meter", None, "exact", "YP59"),
    ("hand", "0.1016", "meter", None, "exact", "HB44"),
    ("nautical_mile", "1852", "meter", None, "exact", "SI"),
    ("angstrom", "1e-10", "meter", "Å", "exact", "SI"),
    ("micron", "1e-6", "meter", None, "exact", "SI"),
    ("fermi", "1e-15", "meter", None, "exact", "SI"),
    ("astronomical_unit", "149597870700", "meter", "au", "exact", "IAU"),
    ("light_year", f"{C}*365.25*86400", "meter", "ly", "exact", "IAU"),
    ("survey_foot", SFT, "meter", None, "exact", "HB44"),
    ("link", f"0.66*{SFT}", "meter", None, "exact", "HB44"),
    ("rod", f"16.5*{SFT}", "meter", None, "exact", "HB44"),
    ("chain", f"66*{SFT}", "meter", None, "exact", "HB44"),
    ("furlong", f"660*{SFT}", "meter", None, "exact", "HB44"),
    ("survey_mile", f"5280*{SFT}", "meter", None, "exact", "HB44"),
    ("league", f"3*5280*{SFT}", "meter", None, "exact", "HB44"),
    ("fathom", f"6*{SFT}", "meter", None, "exact", "HB44"),
    ("cables_length", f"720*{SFT}", "meter", None, "exact", "HB44"),
    ("pica", f"{IN}/6", "meter", None, "exact", "HB44"),
    ("point", f"{IN}/72", "meter", None, "exact", "HB44"),
    ("css_pixel", f"{IN}/96", "meter", "px", "exact", "W3C CSS"),
    ("tex_point", f"{IN}/72.27", "meter", None, "exact", "TeX"),
    ("didot", "1/2660", "meter", None, "exact", "TeX/Didot"),
    # ---- area --------------------------------------------------------------------
    ("are", "100", "meter**2", None, "exact", "SI"),
    ("hectare", "10000", "meter**2", "ha", "exact", "SI"),
    ("barn", "1e-28", "meter**2", "b", "exact", "SI"),
    ("square_inch", f"{IN}**2", "meter**2", None, "exact", "YP59"),
    ("square_foot", f"{FT}**2", "meter**2", None, "exact", "YP59"),
    ("square_yard", f"{YD}**2", "meter**2", None, "exact", "YP59"),
    ("square_mile", "1609.344**2", "meter**2", None, "exact", "YP59"),
    ("acre", f"43560*{SFT}**2", "meter**2", None, "exact", "HB44"),
    ("square_rod", f"(16.5*{SFT})**2", "meter**2", None, "exact", "HB44"),
    ("square_survey_mile", f"(5280*{SFT})**2", "meter**2", None, "exact", "HB44"),
    ("circular_mil", f"{PI}/4*0.0000254**2", "meter**2", None, "pi", "HB44"),
    # ---- volume ------------------------------------------------------------------
    ("liter", "0.001", "meter**3", "l", "exact", "CGPM"),
    ("cubic_centimeter", "1e-6", "meter**3", None, "exact", "SI"),
    ("stere", "1", "meter**3", None, "exact", "SI"),
    ("cubic_inch", f"{IN}**3", "meter**3", None, "exact", "YP59"),
    ("cubic_foot", f"{FT}**3", "meter**3", None, "exact", "YP59"),
    ("cubic_yard", f"{YD}**3", "meter**3", None, "exact", "YP59"),
    ("board_foot", f"144*{IN}**3", "meter**3", None, "exact", "HB44"),
    ("gallon", GAL, "meter**3", "gal", "exact", "HB44"),
    ("quart", f"{GAL}/4", "meter**3", "qt", "exact", "HB44"),
    ("pint", f"{GAL}/8", "meter**3", "pt", "exact", "HB44"),
    ("cup", f"{GAL}/16", "meter**3", None, "exact", "HB44"),
    ("gill", f"{GAL}/32", "meter**3", None, "exact", "HB44"),
    ("fluid_ounce", f"{GAL}/128", "meter**3", None, "exact", "HB44"),
    ("tablespoon", f"{GAL}/256", "meter**3", None, "exact", "HB44"),
    ("teaspoon", f"{GAL}/768", "meter**3", None, "exact", "HB44"),
    ("fluid_dram", f"{GAL}/1024", "meter**3", None, "exact", "HB44"),
    ("minim", f"{GAL}/61440", "meter**3", None, "exact", "HB44"),
    ("fifth", f"{GAL}/5", "meter**3", None, "exact", "US customary"),
    ("barrel", f"31.5*{GAL}", "meter**3", None, "exact", "HB44"),
    ("oil_barrel", f"42*{GAL}", "meter**3", None, "exact", "HB44"),
    ("hogshead", f"63*{GAL}", "meter**3", None, "exact", "HB44"),
    ("bushel", BU, "meter**3", "bu", "exact", "HB44"),
    ("peck", f"{BU}/4", "meter**3", None, "exact", "HB44"),
    ("dry_gallon", f"{BU}/8", "meter**3", None, "exact", "HB44"),
    ("dry_quart", f"{BU}/32", "meter**3", None, "exact", "HB44"),
    ("dry_pint", f"{BU}/64", "meter**3", None, "exact", "HB44"),
    ("dry_barrel", f"7056*{IN}**3", "meter**3", None, "exact", "HB44"),
    ("acre_foot", f"43560*{SFT}**3", "meter**3", None, "exact", "HB44"),
    ("imperial_gallon", IGAL, "meter**3", None, "exact", "WMA"),
    ("imperial_quart", f"{IGAL}/4", "meter**3", None, "exact", "WMA"),
    ("imperial_pint", f"{IGAL}/8", "meter**3", None, "exact", "WMA"),
    ("imperial_cup", f"{IGAL}/16", "meter**3", None, "exact", "WMA"),
    ("imperial_gill", f"{IGAL}/32", "meter**3", None, "exact", "WMA"),
    ("imperial_fluid_ounce", f"{IGAL}/160", "meter**3", None, "exact", "WMA"),
    ("imperial_fluid_drachm", f"{IGAL}/1280", "meter**3", None, "exact", "WMA"),
    ("imperial_fluid_scruple", f"{IGAL}/3840", "meter**3", None, "exact", "WMA"),
    ("imperial_minim", f"{IGAL}/76800", "meter**3", None, "exact", "WMA"),
    ("imperial_peck", f"2*{IGAL}", "meter**3", None, "exact", "WMA"),
    ("imperial_bushel", f"8*{IGAL}", "meter**3", None, "exact", "WMA"),
    ("imperial_barrel", f"36*{IGAL}", "meter**3", None, "exact", "WMA"),
    # ---- mass --------------------------------------------------------------------
    ("gram", "0.001", "kilogram", "g", "exact", "SI"),
    ("metric_ton", "1000", "kilogram", "t", "exact", "SI"),
    ("carat", "0.0002", "kilogram", None, "exact", "CGPM 1907"),
    ("pound", LB, "kilogram", "lb", "exact", "YP59"),
    ("ounce", f"{LB}/16", "kilogram", "oz", "exact", "HB44"),
    ("dram", f"{LB}/256", "kilogram", None, "exact", "HB44"),
    ("grain", GR, "kilogram", "gr", "exact", "HB44"),
    ("stone", f"14*{LB}", "kilogram", None, "exact", "WMA"),
    ("quarter", f"28*{LB}", "kilogram", None, "exact", "WMA (quarter = 28 lb = 1/4 cwt)"),
    ("hundredweight", f"100*{LB}", "kilogram", None, "exact", "HB44"),
    ("long_hundredweight", f"112*{LB}", "kilogram", None, "exact", "HB44"),
    ("ton", f"2000*{LB}", "kilogram", None, "exact", "HB44"),
    ("long_ton", f"2240*{LB}", "kilogram", None, "exact", "HB44"),
    ("UK_ton", f"2240*{LB}", "kilogram", None, "exact", "WMA"),
    ("US_ton", f"2000*{LB}", "kilogram", None, "exact", "HB44"),
    ("UK_hundredweight", f"112*{LB}", "kilogram", None, "exact", "WMA"),
    ("US_hundredweight", f"100*{LB}", "kilogram", None, "exact", "HB44"),
    ("pennyweight", f"24*{GR}", "kilogram", "dwt", "exact", "HB44"),
    ("troy_ounce", f"480*{GR}", "kilogram", None, "exact", "HB44"),
    ("troy_pound", f"5760*{GR}", "kilogram", None, "exact", "HB44"),
    ("scruple", f"20*{GR}", "kilogram", None, "exact", "HB44"),
    ("apothecary_dram", f"60*{GR}", "kilogram", None, "exact", "HB44"),
    ("apothecary_ounce", f"480*{GR}", "kilogram", None, "exact", "HB44"),
    ("apothecary_pound", f"5760*{GR}", "kilogram", None, "exact", "HB44"),
    ("slug", f"{LB}*{G0}/{FT}", "kilogram", None, "exact", "SP811"),
    ("dalton", "1.66053906892e-27", "kilogram", "Da", "codata", "CODATA22"),
    ("unified_atomic_mass_unit", "1.66053906892e-27", "kilogram", "u", "codata", "CODATA22"),
    # ---- time --------------------------------------------------------------------
    ("minute", "60", "second", "min", "exact", "SI"),
    ("hour", "3600", "second", "h", "exact", "SI"),
    ("day", "86400", "second", "d", "exact", "SI"),
    ("week", "604800", "second", None, "exact", "ISO 8601"),
    ("fortnight", "1209600", "second", None, "exact", "-"),
    ("year", "31557600", "second", "a", "exact", "IAU"),
    ("julian_year", "31557600", "second", None, "exact", "IAU"),
    ("common_year", "31536000", "second", None, "exact", "-"),
    ("leap_year", "31622400", "second", None, "exact", "-"),
    ("gregorian_year", "31556952", "second", None, "exact", "-"),
    ("century", "3155760000", "second", None, "exact", "IAU"),
    ("millennium", "31557600000", "second", None, "exact", "IAU"),
    ("month", "2629800", "second", None, "exact", "year/12"),
    ("shake", "1e-8", "second", None, "exact", "-"),
    ("svedberg", "1e-13", "second", None, "exact", "-"),
    # ---- angle -------------------------------------------------------------------
    ("degree", f"{PI}/180", "radian", "deg", "pi", "SI"),
    ("arcminute", f"{PI}/10800", "radian", None, "pi", "SI"),
    ("arcsecond", f"{PI}/648000", "radian", None, "pi", "SI"),
    ("turn", f"2*{PI}", "radian", None, "pi", "ISO 80000-3"),
    ("grade", f"{PI}/200", "radian", None, "pi", "ISO 80000-3"),
    ("mil", f"{PI}/3200", "radian", None, "pi", "NATO angular mil: 6400 per circle (added after a sub-agent noticed pint's value)"),
    ("steradian", "1", "radian**2", "sr", "exact", "SI"),
    ("square_degree", f"({PI}/180)**2", "radian**2", None, "pi", "-"),
    # ---- frequency, speed, acceleration ---------------------------------------------
    ("hertz", "1", "1/second", "Hz", "exact", "SI"),
    ("becquerel", "1", "1/second", "Bq", "exact", "SI"),
    ("revolutions_per_minute", f"2*{PI}/60", "radian/second", "rpm", "pi", "-"),
    ("knot", "1852/3600", "meter/second", None, "exact", "SI"),
    ("mile_per_hour", "0.44704", "meter/second", "mph", "exact", "YP59"),
    ("kilometer_per_hour", "1/3.6", "meter/second", None, "exact", "SI"),
    ("foot_per_second", FT, "meter/second", None, "exact", "YP59"),
    ("galileo", "0.01", "meter/second**2", "Gal", "exact", "SI"),
    ("standard_gravity", G0, "meter/second**2", "g_0", "exact", "CGPM"),
    ("reciprocal_centimeter", "100", "1/meter", None, "exact", "SI"),
    # ---- force -------------------------------------------------------------------
    ("newton", "1", "kilogram*meter/second**2", "N", "exact", "SI"),
    ("dyne", "1e-5", "kilogram*meter/second**2", "dyn", "exact", "SI"),
    ("force_kilogram", G0, "newton", "kgf", "exact", "CGPM"),
    ("force_gram", f"{G0}/1000", "newton", None, "exact", "CGPM"),
    ("force_metric_ton", f"{G0}*1000", "newton", None, "exact", "CGPM"),
    ("force_pound", LBF, "newton", "lbf", "exact", "SP811"),
    ("force_ounce", f"{LBF}/16", "newton", None, "exact", "SP811"),
    ("force_ton", f"2000*{LBF}", "newton", None, "exact", "SP811"),
    ("force_long_ton", f"2240*{LBF}", "newton", None, "exact", "SP811"),
    ("kip", f"1000*{LBF}", "newton", None, "exact", "SP811"),
    ("poundal", f"{LB}*{FT}", "newton", "pdl", "exact", "SP811"),
    # ---- pressure ----------------------------------------------------------------
    ("pascal", "1", "kilogram/meter/second**2", "Pa", "exact", "SI"),
    ("bar", "100000", "pascal", "bar", "exact", "SI"),
    ("barye", "0.1", "pascal", "Ba", "exact", "SI"),
    ("standard_atmosphere", "101325", "pascal", "atm", "exact", "CGPM"),
    ("technical_atmosphere", "98066.5", "pascal", "at", "exact", "SP811"),
    ("torr", "101325/760", "pascal", None, "exact", "SP811"),
    ("pound_force_per_square_inch", f"{LBF}/{IN}**2", "pascal", "psi", "exact", "SP811"),
    ("kip_per_square_inch", f"1000*{LBF}/{IN}**2", "pascal", "ksi", "exact", "SP811"),
    ("millimeter_Hg", f"13.5951*{G0}", "pascal", "mmHg", "exact", "SP811"),
    ("centimeter_Hg", f"135.951*{G0}", "pascal", "cmHg", "exact", "SP811"),
    ("inch_Hg", f"25.4*13.5951*{G0}", "pascal", "inHg", "exact", "SP811"),
    ("centimeter_H2O", f"10*{G0}", "pascal", "cmH2O", "exact", "SP811"),
    ("foot_H2O", f"304.8*{G0}", "pascal", "ftH2O", "exact", "SP811"),
    # ---- energy, power -----------------------------------------------------------
    ("joule", "1", "kilogram*meter**2/second**2", "J", "exact", "SI"),
    ("erg", "1e-7", "joule", "erg", "exact", "SI"),
    ("watt_hour", "3600", "joule", "Wh", "exact", "SI"),
    ("electron_volt", E, "joule", "eV", "exact", "SI"),
    ("calorie", "4.184", "joule", "cal", "exact", "SP811"),
    ("international_calorie", "4.1868", "joule", "cal_it", "exact", "SP811"),
    ("fifteen_degree_calorie", "4.1855", "joule", "cal_15", "exact", "SP811"),
    ("british_thermal_unit", "1055.056", "joule", "Btu", "exact", "ISO 31-4"),
    ("international_british_thermal_unit", f"4.1868*1000*{LB}/1.8", "joule", "Btu_it", "exact", "SP811"),
    ("thermochemical_british_thermal_unit", f"4.184*1000*{LB}/1.8", "joule", "Btu_th", "exact", "SP811"),
    ("ton_TNT", "4.184e9", "joule", None, "exact", "SP811"),
    ("tonne_of_oil_equivalent", "4.1868e10", "joule", "toe", "exact", "IEA"),
    ("foot_pound", f"{FT}*{LBF}", "joule", None, "exact", "SP811"),
    ("atmosphere_liter", "101.325", "joule", None, "exact", "SP811"),
    ("watt", "1", "kilogram*meter**2/second**3", "W", "exact", "SI"),
    ("horsepower", f"550*{FT}*{LBF}", "watt", "hp", "exact", "SP811"),
    ("metric_horsepower", f"75*{G0}", "watt", None, "exact", "SP811"),
    ("electrical_horsepower", "746", "watt", None, "exact", "SP811"),
    ("volt_ampere", "1", "watt", "VA", "exact", "SI"),
    # ---- viscosity ---------------------------------------------------------------
    ("poise", "0.1", "pascal*second", "P", "exact", "SI"),
    ("stokes", "1e-4", "meter**2/second", "St", "exact", "SI"),
    ("rhe", "10", "1/pascal/second", None, "exact", "SI"),
    # ---- electromagnetism (SI coherent derived units) -----------------------------
    ("coulomb", "1", "ampere*second", "C", "exact", "SI"),
    ("volt", "1", "kilogram*meter**2/second**3/ampere", "V", "exact", "SI"),
    ("ohm", "1", "kilogram*meter**2/second**3/ampere**2", "Ω", "exact", "SI"),
    ("siemens", "1", "ampere**2*second**3/kilogram/meter**2", "S", "exact", "SI"),
    ("farad", "1", "ampere**2*second**4/kilogram/meter**2", "F", "exact", "SI"),
    ("weber", "1", "kilogram*meter**2/second**2/ampere", "Wb", "exact", "SI"),
    ("henry", "1", "kilogram*meter**2/second**2/ampere**2", "H", "exact", "SI"),
    ("tesla", "1", "kilogram/second**2/ampere", "T", "exact", "SI"),
    ("ampere_hour", "3600", "coulomb", "Ah", "exact", "SI"),
    ("biot", "10", "ampere", "Bi", "exact", "CGS-EMU"),
    ("abampere", "10", "ampere", "abA", "exact", "CGS-EMU"),
    ("abcoulomb", "10", "coulomb", "abC", "exact", "CGS-EMU"),
    ("abvolt", "1e-8", "volt", "abV", "exact", "CGS-EMU"),
    ("abohm", "1e-9", "ohm", "abΩ", "exact", "CGS-EMU"),
    ("absiemens", "1e9", "siemens", "abS", "exact", "CGS-EMU"),
    ("abfarad", "1e9", "farad", "abF", "exact", "CGS-EMU"),
    ("abhenry", "1e-9", "henry", "abH", "exact", "CGS-EMU"),
    ("gamma", "1e-9", "tesla", "γ", "exact", "-"),
    ("townsend", "1e-21", "volt*meter**2", "Td", "exact", "-"),
    ("faraday", f"{E}*{NA}", "coulomb", None, "exact", "SI 2019"),
    # ---- photometry, chemistry, radiation ----------------------------------------
    ("lumen", "1", "candela*radian**2", "lm", "exact", "SI"),
    ("lux", "1", "candela*radian**2/meter**2", "lx", "exact", "SI"),
    ("nit", "1", "candela/meter**2", None, "exact", "SI"),
    ("stilb", "10000", "candela/meter**2", None, "exact", "CGS"),
    ("lambert", f"10000/{PI}", "candela/meter**2", None, "pi", "CGS"),
    ("katal", "1", "mole/second", "kat", "exact", "SI"),
    ("molar", "1000", "mole/meter**3", "M", "exact", "SI"),
    ("enzyme_unit", "1e-6/60", "mole/second", "U", "exact", "IUB"),
    ("gray", "1", "meter**2/second**2", "Gy", "exact", "SI"),
    ("sievert", "1", "meter**2/second**2", "Sv", "exact", "SI"),
    ("rads", "0.01", "gray", None, "exact", "SP811"),
    ("rem", "0.01", "sievert", "rem", "exact", "SP811"),
    ("curie", "3.7e10", "becquerel", "Ci", "exact", "SP811"),
    ("rutherford", "1e6", "becquerel", "Rd", "exact", "-"),
    ("roentgen", "2.58e-4", "coulomb/kilogram", None, "exact", "SP811"),
    # ---- information, dimensionless ----------------------------------------------
    ("byte", "8", "bit", "B", "exact", "IEC"),
    ("baud", "1", "bit/second", "Bd", "exact", "IEC"),
    ("percent", "0.01", "dimensionless", "%", "exact", "ISO 80000-1"),
    ("permille", "0.001", "dimensionless", "‰", "exact", "ISO 80000-1"),
    ("ppm", "1e-6", "dimensionless", None, "exact", "-"),
    # ---- SI defining constants (2019) and exact derived constants ------------------
    ("speed_of_light", C, "meter/second", "c", "exact", "SI 2019"),
    ("planck_constant", H, "joule*second", None, "exact", "SI 2019"),
    ("elementary_charge", E, "coulomb", "e", "exact", "SI 2019"),
    ("boltzmann_constant", K, "joule/kelvin", "k", "exact", "SI 2019"),
    ("avogadro_constant", NA, "1/mole", "N_A", "exact", "SI 2019"),
    ("avogadro_number", NA, "dimensionless", None, "exact", "SI 2019"),
    ("molar_gas_constant", f"{K}*{NA}", "joule/kelvin/mole", "R", "exact", "SI 2019"),
    ("faraday_constant", f"{E}*{NA}", "coulomb/mole", None, "exact", "SI 2019"),
    ("josephson_constant", f"2*{E}/{H}", "hertz/volt", "K_J", "exact", "SI 2019"),
    ("von_klitzing_constant", f"{H}/{E}**2", "ohm", "R_K", "exact", "SI 2019"),
    ("conductance_quantum", f"2*{E}**2/{H}", "siemens", "G_0", "exact", "SI 2019"),
    ("magnetic_flux_quantum", f"{H}/(2*{E})", "weber", "Φ_0", "exact", "SI 2019"),
    ("conventional_josephson_constant", "4.835979e14", "hertz/volt", "K_J90", "exact", "CIPM 1988"),
    ("conventional_von_klitzing_constant", "25812.807", "ohm", "R_K90", "exact", "CIPM 1988"),
    ("dirac_constant", f"{H}/(2*{PI})", "joule*second", "ħ", "pi", "SI 2019"),
    ("second_radiation_constant", f"{H}*{C}/{K}", "meter*kelvin", "c_2", "exact", "SI 2019"),
    ("first_radiation_constant", f"2*{PI}*{H}*{C}**2", "watt*meter**2", "c_1", "pi", "SI 2019"),
    ("stefan_boltzmann_constant", f"2*{PI}**5*{K}**4/(15*{H}**3*{C}**2)",
     "watt/meter**2/kelvin**4", "σ", "pi", "SI 2019"),
    ("particle", f"1/{NA}", "mole", None, "exact", "SI 2019"),
    # ---- CODATA 2022 measured constants (literal digits in the file) ----------------
    ("newtonian_constant_of_gravitation", "6.67430e-11", "meter**3/kilogram/second**2", None, "codata", "CODATA22"),
    ("rydberg_constant", "10973731.568157", "1/meter", "R_∞", "codata", "CODATA22"),
    ("electron_g_factor", "-2.00231930436092", "dimensionless", "g_e", "codata", "CODATA22"),
    ("atomic_mass_constant", "1.66053906892e-27", "kilogram", "m_u", "codata", "CODATA22"),
    ("electron_mass", "9.1093837139e-31", "kilogram", "m_e", "codata", "CODATA22"),
    ("proton_mass", "1.67262192595e-27", "kilogram", "m_p", "codata", "CODATA22"),
    ("neutron_mass", "1.67492750056e-27", "kilogram", "m_n", "codata", "CODATA22"),
    ("x_unit_Cu", "1.00207697e-13", "meter", "Xu_Cu", "codata", "CODATA22"),
    ("x_unit_Mo", "1.00209952e-13", "meter", "Xu_Mo", "codata", "CODATA22"),
    # ---- CODATA 2022 values pint derives from the ones above -----------------------
    ("fine_structure_constant", "7.2973525643e-3", "dimensionless", "α", "derived", "CODATA22"),
    ("vacuum_permeability", "1.25663706127e-6", "newton/ampere**2", "µ_0", "derived", "CODATA22"),
    ("vacuum_permittivity", "8.8541878188e-12", "farad/meter", "ε_0", "derived", "CODATA22"),
    ("impedance_of_free_space", "376.730313412", "ohm", "Z_0", "derived", "CODATA22"),
    ("bohr", "5.29177210544e-11", "meter", "a_0", "derived", "CODATA22"),
    ("hartree", "4.3597447222060e-18", "joule", "E_h", "derived", "CODATA22"),
    ("rydberg", "2.1798723611030e-18", "joule", "Ry", "derived", "CODATA22"),
    ("bohr_magneton", "9.2740100657e-24", "joule/tesla", "µ_B", "derived", "CODATA22"),
    ("nuclear_magneton", "5.0507837393e-27", "joule/tesla", "µ_N", "derived", "CODATA22"),
    ("classical_electron_radius", "2.8179403205e-15", "meter", "r_e", "derived", "CODATA22"),
    ("thomson_cross_section", "6.6524587051e-29", "meter**2", "σ_e", "derived", "CODATA22"),
    ("wien_wavelength_displacement_law_constant", "2.897771955e-3", "meter*kelvin", None, "derived", "CODATA22"),
    ("wien_frequency_displacement_law_constant", "5.878925757e10", "hertz/kelvin", None, "derived", "CODATA22"),
    ("atomic_unit_of_time", "2.4188843265864e-17", "second", None, "derived", "CODATA22"),
]

# SI prefixes (SI brochure table 7, incl. 2022 additions) and IEC binary prefixes
PREFIXES = [
    ("quecto", "q", -30), ("ronto", "r", -27), ("yocto", "y", -24), ("zepto", "z", -21),
    ("atto", "a", -18), ("femto", "f", -15), ("pico", "p", -12), ("nano", "n", -9),
    ("micro", "µ", -6), ("milli", "m", -3), ("centi", "c", -2), ("deci", "d", -1),
    ("deca", "da", 1), ("hecto", "h", 2), ("kilo", "k", 3), ("mega", "M", 6),
    ("giga", "G", 9), ("tera", "T", 12), ("peta", "P", 15), ("exa", "E", 18),
    ("zetta", "Z", 21), ("yotta", "Y", 24), ("ronna", "R", 27), ("quetta", "Q", 30),
]
BINARY_PREFIXES = [
    ("kibi", "Ki", 10), ("mebi", "Mi", 20), ("gibi", "Gi", 30), ("tebi", "Ti", 40),
    ("pebi", "Pi", 50), ("exbi", "Ei", 60), ("zebi", "Zi", 70), ("yobi", "Yi", 80),
]

# base units: name, symbol, dimension
BASE = [
    ("meter", "m", "[length]"), ("second", "s", "[time]"), ("ampere", "A", "[current]"),
    ("kelvin", "K", "[temperature]"), ("mole", "mol", "[substance]"),
    ("candela", "cd", "[luminosity]"), ("kilogram", "kg", "[mass]"),
    ("radian", "rad", None), ("bit", "bit", None),
]

# temperature scales: (value, unit, kelvin) fixed points and (unit, kelvin per degree)
TEMP_POINTS = [
    ("0", "degree_Celsius", "273.15"), ("100", "degree_Celsius", "373.15"),
    ("-273.15", "degree_Celsius", "0"), ("-40", "degree_Celsius", "233.15"),
    ("32", "degree_Fahrenheit", "273.15"), ("212", "degree_Fahrenheit", "373.15"),
    ("-40", "degree_Fahrenheit", "233.15"), ("-459.67", "degree_Fahrenheit", "0"),
    ("0", "degree_Rankine", "0"), ("491.67", "degree_Rankine", "273.15"),
    ("671.67", "degree_Rankine", "373.15"),
    ("0", "degree_Reaumur", "273.15"), ("80", "degree_Reaumur", "373.15"),
    ("0", "kelvin", "0"), ("273.16", "kelvin", "273.16"),
]
TEMP_SYMBOLS = [("degree_Celsius", "°C"), ("degree_Fahrenheit", "°F"),
                ("degree_Rankine", "°R"), ("kelvin", "K")]
TEMP_DELTA = [("delta_degree_Celsius", "1"), ("delta_degree_Fahrenheit", "5/9"),
              ("degree_Rankine", "5/9"), ("delta_degree_Reaumur", "5/4")]
