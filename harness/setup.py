"""MANIFEST.setup_cmd: install the third-party monitor libraries from the offline wheelhouse
into /verif/.deps (git-ignored) and byte-compile nothing else.  Idempotent."""
import sys
from harness.core import ensure_deps

ok = ensure_deps(("icontract",))
print("deps", "ok" if ok else "MISSING (checks that need icontract will be inconclusive)")
sys.exit(0 if ok else 1)
